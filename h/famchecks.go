package main

import (
	"fmt"
	"strings"
	"time"
)

var grantsCodeHybrid = []Op{{Op: "authz", Client: "A", Flow: "code"}, {Op: "authz", Client: "P", Flow: "code"}, {Op: "authz", Client: "A", Flow: "hyb-idt"}, {Op: "authz", Client: "A", Flow: "hyb-tok"}}

func init() {
	registerCheck("C01", "model_checking", 150*time.Second, 40*time.Minute, func(r *Run) {
		depth := 6
		if !r.Quick() {
			depth = 7
		}
		var specs []FamSpec
		for _, jwt := range []bool{false, true} {
			for _, rs := range [][]string{nil, {"offline"}, {"rt"}} {
				p := Profile{JWTAccess: jwt, RefreshScopes: rs}
				specs = append(specs, FamSpec{Prop: "C01", Profile: p, Depth: depth, MaxGrants: 2, Grants: grantsCodeHybrid,
					RedeemBy: []string{"owner", "other", "badsecret"}, RefreshBy: []string{"owner"}, RevokeBy: []string{"owner"}, Hints: []string{""},
					Advances: []int{660, 3700}})
			}
		}
		// grants whose authorization was started from a pushed request, and a second presentation of the same request_uri
		specs = append(specs, FamSpec{Prop: "C01", Profile: Profile{}, Depth: depth - 1, MaxGrants: 2,
			Grants:   []Op{{Op: "authz", Client: "A", Flow: "par"}, {Op: "authz", Client: "A", Flow: "par-again"}, {Op: "authz", Client: "A", Flow: "code"}},
			RedeemBy: []string{"owner", "other"}, RefreshBy: []string{"owner"}, RevokeBy: []string{"owner"}, Hints: []string{""}, Advances: []int{660}})
		r.Bounds = map[string]any{"history_depth": depth, "max_grants": 2, "strategies": []string{"hmac", "jwt"}, "refresh_scope_configs": []string{"[]", "[offline]", "[rt]"},
			"pushed_requests": fmt.Sprintf("one further search to depth %d: authz(A from a pushed request | same request_uri again | A code) redeem(owner|other) refresh revoke advance(660s), HMAC", depth-1),
			"alphabet":        "authz(A|P code, A hybrid code+id_token, A hybrid code+token) redeem(code, owner|other|badsecret) refresh(rt, owner) revoke(tok, owner) advance(660s|3700s)"}
		r.Rule = "explicit-state BFS over API histories; a state is the canonical dump of all store tables + clock + model; every transition replays the whole history on a fresh provider and compares each step with the reference model, then introspects every token ever issued"
		r.Assumptions = []string{"model: a code yields tokens at most once; any later presentation by an authenticated client answers invalid_grant and kills every token-endpoint-issued token of that grant", "tokens issued by the authorization endpoint itself (hybrid) are not descendants of the code"}
		famSearch(r, specs)
		overlapPart(r, []string{"code", "code-oidc", "code-pkce", "refresh-vs-code-replay"})
	})

	registerCheck("C04", "model_checking", 150*time.Second, 40*time.Minute, func(r *Run) {
		depth := 5
		if !r.Quick() {
			depth = 7
		}
		grants := []Op{{Op: "authz", Client: "A", Flow: "code"}, {Op: "authz", Client: "A", Flow: "hyb-tok"}, {Op: "password", Client: "A"}, {Op: "device", Client: "A"}, {Op: "authz", Client: "P", Flow: "oidc"}}
		var specs []FamSpec
		for _, jwt := range []bool{false, true} {
			for _, rtl := range []int{0, 7200} {
				p := Profile{JWTAccess: jwt, RTLifespan: rtl}
				specs = append(specs, FamSpec{Prop: "C04", Profile: p, Depth: depth, MaxGrants: 2, Grants: grants,
					RedeemBy: []string{"owner"}, RefreshBy: []string{"owner", "other", "other-public"}, RevokeBy: []string{"owner"}, Hints: []string{""},
					Advances: []int{3700, 7300}})
			}
		}
		rsDepth := depth
		if !r.Quick() {
			rsDepth = depth - 1
		}
		// JWT access tokens under a deterministic signature scheme (RS256): tokens of one family issued within the same
		// second differ only in their jti
		specs = append(specs, FamSpec{Prop: "C04", Profile: Profile{JWTAccess: true, IDKey: "rsa1", RTLifespan: 7200}, Depth: rsDepth, MaxGrants: 2,
			Grants:   []Op{{Op: "authz", Client: "A", Flow: "code"}, {Op: "password", Client: "A"}, {Op: "device", Client: "A"}},
			RedeemBy: []string{"owner"}, RefreshBy: []string{"owner", "other"}, RevokeBy: []string{"owner"}, Hints: []string{""}, Advances: []int{3700}})
		// grants started from a pushed authorization request, and from a second presentation of the same request_uri:
		// should a second authorization start, it is an independent grant with a token family of its own
		parDepth := depth
		if !r.Quick() {
			parDepth = depth - 1
		}
		specs = append(specs, FamSpec{Prop: "C04", Profile: Profile{RTLifespan: 7200}, Depth: parDepth, MaxGrants: 2,
			Grants:   []Op{{Op: "authz", Client: "A", Flow: "par"}, {Op: "authz", Client: "A", Flow: "par-again"}},
			RedeemBy: []string{"owner"}, RefreshBy: []string{"owner"}, RevokeBy: []string{"owner"}, Hints: []string{""}, Advances: []int{3700}})
		r.Bounds = map[string]any{"history_depth": depth, "max_grants": 2, "pushed_requests": fmt.Sprintf("one further search to depth %d over grants from a pushed request and from the same request_uri presented again", parDepth), "strategies": []string{"hmac", "jwt (ES256)", fmt.Sprintf("jwt (RS256, deterministic signatures) to depth %d", rsDepth)}, "refresh_lifespans": []string{"30d", "2h"},
			"alphabet": "grant(code A, hybrid code+token A, password A, device A, oidc code P) redeem(owner) refresh(every rt ever seen, owner|other) revoke(tok, owner) advance(3700s|7300s)"}
		r.Rule = "explicit-state BFS over API histories with global deduplication on (store dump, clock, model); every refresh token ever issued stays in the alphabet, so replay of any generation is an ordinary transition; every transition is followed by introspection of every token"
		r.Assumptions = []string{"model: a refresh token is exchanged at most once; exchange rotates it and its sibling access token; presenting a used one (any authenticated client, expired or not) answers invalid_grant and kills all token-endpoint-issued tokens of the grant; other grants untouched",
			"state after refusing a never-used token (foreign presenter / revoked token) is not pinned by the statement: the model adopts what introspection reports (counted as dont_care)"}
		famSearch(r, specs)
		overlapPart(r, []string{"refresh", "refresh-oidc"})
	})
	registerCheck("C08", "model_checking", 150*time.Second, 40*time.Minute, func(r *Run) {
		depth := 5
		if !r.Quick() {
			depth = 6
		}
		grants := []Op{{Op: "authz", Client: "A", Flow: "code"}, {Op: "authz", Client: "A", Flow: "hyb-tok"}, {Op: "password", Client: "A"}, {Op: "authz", Client: "P", Flow: "code"}}
		var specs []FamSpec
		for _, jwt := range []bool{false, true} {
			p := Profile{JWTAccess: jwt, RTLifespan: 7200}
			specs = append(specs, FamSpec{Prop: "C08", Profile: p, Depth: depth, MaxGrants: 2, Grants: grants,
				RedeemBy: []string{"owner"}, RefreshBy: []string{"owner"}, RevokeBy: []string{"owner", "other", "casevariant", "other-public", "badsecret", "owner-forged"}, Hints: []string{"", "access_token", "refresh_token", "garbage", "id_token", "authorize_code"},
				Advances: []int{3700}})
		}
		// an application revocation handler registered in front of the library's (one level shallower)
		specs = append(specs, FamSpec{Prop: "C08", Profile: Profile{RTLifespan: 7200, AppRevocationHandlerFirst: true}, Depth: depth - 1, MaxGrants: 2,
			Grants:   []Op{{Op: "authz", Client: "A", Flow: "code"}, {Op: "password", Client: "A"}},
			RedeemBy: []string{"owner"}, RefreshBy: []string{"owner"}, RevokeBy: []string{"owner", "other", "badsecret"}, Hints: []string{"", "access_token", "refresh_token", "garbage"},
			Advances: []int{3700}})
		r.Bounds = map[string]any{"history_depth": depth, "max_grants": 2, "strategies": []string{"hmac", "jwt"}, "application_revocation_handler_in_front": "hmac, one level shallower",
			"alphabet": "grant(code A, hybrid code+token A, password A, code P) redeem(owner) refresh(owner) revoke(every token ever seen x caller owner|other|case-variant|badsecret|owner presenting a forged string with the token's signature part x hint none|access_token|refresh_token|garbage|id_token|authorize_code) advance(3700s)"}
		r.Rule = "explicit-state BFS over API histories; revocation is attempted on tokens in every liveness state (live, rotated, revoked, killed, expired) reached by the search; each transition is followed by introspection of every token and, where the statement says 'changes nothing', by equality of the complete store dump"
		r.Assumptions = []string{"model: owner revocation of a live token kills it and the token issued alongside it; other tokens of the same grant are not pinned (adopted from introspection); foreign client => unauthorized_client and unchanged store; failed client authentication => unchanged store; already-invalid tokens => success and unchanged store"}
		famSearch(r, specs)
		overlapPart(r, []string{"refresh-vs-revoke", "refresh-vs-revoke-at"})
	})
	registerCheck("C09", "model_checking", 150*time.Second, 40*time.Minute, func(r *Run) {
		depth := 4
		if !r.Quick() {
			depth = 6
		}
		grants := []Op{{Op: "authz", Client: "A", Flow: "code"}, {Op: "authz", Client: "A", Flow: "hyb-tok"}, {Op: "password", Client: "A"}, {Op: "device", Client: "A"}, {Op: "cc", Client: "B"}, {Op: "authz", Client: "P", Flow: "oidc"}, {Op: "authz", Client: "A", Flow: "code-partial"}}
		var specs []FamSpec
		for _, jwt := range []bool{false, true} {
			for _, dis := range []bool{false, true} {
				for _, ss := range []string{"hierarchic", "wildcard", "exact"} {
					if jwt && ss != "hierarchic" {
						continue
					}
					p := Profile{JWTAccess: jwt, RTLifespan: 7200, DisableRTValidation: dis, ScopeStrategy: ss}
					specs = append(specs, FamSpec{Prop: "C09", Profile: p, Depth: depth, MaxGrants: 2, Grants: grants,
						RedeemBy: []string{"owner"}, RefreshBy: []string{"owner", "other"}, RevokeBy: []string{"owner"}, Hints: []string{""},
						Advances: []int{3700}, C09: true})
				}
			}
		}
		// two introspection validators: the stateless JWT one registered in front of the stateful one
		specs = append(specs, FamSpec{Prop: "C09", Profile: Profile{JWTAccess: true, RTLifespan: 7200, StatelessJWTIntrospectionFirst: true}, Depth: depth - 1, MaxGrants: 2,
			Grants:   []Op{{Op: "authz", Client: "A", Flow: "code"}, {Op: "password", Client: "A"}, {Op: "cc", Client: "B"}},
			RedeemBy: []string{"owner"}, RefreshBy: []string{"owner"}, RevokeBy: []string{"owner"}, Hints: []string{""}, Advances: []int{3700}, C09: true})
		// refresh tokens that never expire (the strategy takes another path for them)
		specs = append(specs, FamSpec{Prop: "C09", Profile: Profile{RTLifespan: -1}, Depth: depth - 1, MaxGrants: 2,
			Grants:   []Op{{Op: "authz", Client: "A", Flow: "code"}, {Op: "password", Client: "A"}, {Op: "device", Client: "A"}},
			RedeemBy: []string{"owner"}, RefreshBy: []string{"owner"}, RevokeBy: []string{"owner"}, Hints: []string{""}, Advances: []int{3700}, C09: true})
		r.Bounds = map[string]any{"history_depth": depth, "max_grants": 2, "unlimited_refresh_lifetime": "hmac, refresh tokens without expiry, one level shallower", "configs": "hmac x {rt validation on,off} x {hierarchic,wildcard,exact}; jwt x {on,off} x hierarchic; jwt with the stateless JWT validator registered in front of the stateful one (one level shallower)",
			"alphabet": "grant(code, hybrid code+token, password, device, client_credentials, oidc code) redeem refresh(owner|foreign client) revoke advance(3700s); in every reached state: every token and its mutants x hint x required scopes x caller credential"}
		r.Rule = "explicit-state BFS over API histories; in every reached state every token ever seen (plus mutants) is introspected under the whole hint x scope x caller grid and compared with the model"
		r.Assumptions = []string{"model liveness: issued, unexpired (1s don't-care window around expiry), not rotated/revoked/killed", "scope coverage judged by an independent reimplementation of the three scope strategies"}
		famSearch(r, specs)
		// the stateless JWT validator alone: payload of active tokens
		if !r.MergeJobs(r.Pool.Do("c09stateless", []any{map[string]string{}}, r.Deadline)) {
			r.Exhaustive = false
		}
		r.Bounds["stateless_jwt_validator_alone"] = "2 grants x 3 requested audiences: audience, scope and exp reported for an active token equal the token's claims"
	})
}

// overlapPart: overlapping requests on one credential at API-phase granularity (see overlap.go).
func overlapPart(r *Run, kinds []string) {
	maxN := 3
	if !r.Quick() {
		maxN = 4
	}
	res := r.Pool.Do("overlap", overlapJobs(kinds, maxN, []bool{false, true}, []bool{false, true}), r.Deadline)
	if !r.MergeJobs(res) {
		r.Exhaustive = false
	}
	if r.Bounds != nil {
		if len(kinds) > 0 && kinds[len(kinds)-1] == "refresh-vs-code-replay" {
			r.Bounds["overlapping_requests"] = fmt.Sprintf("%v: 2..%d identical token requests on one code, every interleaving of their NewAccessRequest / NewAccessResponse phases; and a refresh validated before / completed after a replay of the code; x {HMAC,JWT} x {plain,transactional store}", kinds[:len(kinds)-1], maxN)
			return
		}
		if len(kinds) > 0 && strings.HasPrefix(kinds[0], "refresh-vs-revoke") {
			r.Bounds["overlapping_requests"] = "a refresh request validated before and completed after the owner's accepted revocation of the presented refresh token / of the access token issued alongside it, x {HMAC,JWT} x {plain,transactional store}"
			return
		}
		r.Bounds["overlapping_requests"] = fmt.Sprintf("%v: 2..%d identical token requests on one credential, every interleaving of their NewAccessRequest / NewAccessResponse phases, x {HMAC,JWT} x {plain,transactional store}", kinds, maxN)
	}
}
