package main

import (
	"encoding/json"
	"fmt"
	"net/url"
	"strings"
	"time"

	"github.com/ory/fosite"
	"github.com/ory/fosite/storage"
)

// C12 — scope and audience policies mean what they document and confine every grant.

var c12Symbols = []string{"a", "b", "*", "", "ab"}

func c12Strings(maxSeg int) []string {
	var out []string
	var rec func(prefix []string)
	rec = func(prefix []string) {
		if len(prefix) > 0 {
			out = append(out, strings.Join(prefix, "."))
		}
		if len(prefix) == maxSeg {
			return
		}
		for _, s := range c12Symbols {
			rec(append(append([]string(nil), prefix...), s))
		}
	}
	rec(nil)
	// shortest first
	sortByLen(out)
	return out
}

func sortByLen(xs []string) {
	for i := 1; i < len(xs); i++ {
		for j := i; j > 0 && (len(xs[j]) < len(xs[j-1])); j-- {
			xs[j], xs[j-1] = xs[j-1], xs[j]
		}
	}
}

type c12StratJob struct {
	Strategy string `json:"strategy"`
	MaxSeg   int    `json:"max_seg"`
	Shard    int    `json:"shard"`
	Shards   int    `json:"shards"`
}

func c12Impl(strategy string) fosite.ScopeStrategy {
	switch strategy {
	case "exact":
		return fosite.ExactScopeStrategy
	case "wildcard":
		return fosite.WildcardScopeStrategy
	}
	return fosite.HierarchicScopeStrategy
}

func c12StratRun(j c12StratJob) *WRes {
	res := &WRes{}
	strs := c12Strings(j.MaxSeg)
	short := len(strs)
	if j.MaxSeg > 4 {
		// strings are ordered by byte length, not by segment count: take the longest prefix of the list
		// that only contains strings of <= 4 segments
		for i, s := range strs {
			if strings.Count(s, ".") >= 4 {
				short = i
				break
			}
		}
	}
	impl := c12Impl(j.Strategy)
	nviol := 0
	for mi, m := range strs {
		if mi%j.Shards != j.Shard {
			continue
		}
		for _, n := range strs {
			got := impl([]string{m}, n)
			want, dc := refScope(j.Strategy, []string{m}, n)
			res.Evals++
			if dc {
				res.DontCare++
				continue
			}
			if got {
				res.class(j.Strategy + ":match")
				res.distinct(j.Strategy + "|" + m + "|" + n)
			}
			if got != want && nviol < 3 {
				nviol++
				res.violate(Violation{Property: "C12", Fingerprint: fmt.Sprintf("C12/strategy=%s/matcher=%q/needle=%q/impl=%v/doc=%v", j.Strategy, m, n, got, want),
					What:   fmt.Sprintf("%s scope strategy decides %v for registered %q vs requested %q; the documented behaviour is %v", j.Strategy, got, m, n, want),
					Engine: "c12strat", Case: map[string]any{"strategy": j.Strategy, "matcher": m, "needle": n}, Expected: fmt.Sprint(want), Observed: got})
			}
		}
		// two-element haystacks: the verdict is the disjunction (fixed sub-grid over strings of <= 4 segments)
		if mi%7 == 0 && mi < short {
			for oi, m2 := range strs[:short] {
				if oi%11 != 0 {
					continue
				}
				for ni, n := range strs[:short] {
					if ni%5 != 0 {
						continue
					}
					got := impl([]string{m, m2}, n)
					w1, d1 := refScope(j.Strategy, []string{m}, n)
					w2, d2 := refScope(j.Strategy, []string{m2}, n)
					res.Evals++
					if (d1 && !w2) || (d2 && !w1) {
						res.DontCare++
						continue
					}
					if got != (w1 || w2) && nviol < 3 {
						nviol++
						res.violate(Violation{Property: "C12", Fingerprint: fmt.Sprintf("C12/strategy=%s/haystack=[%q %q]/needle=%q/impl=%v", j.Strategy, m, m2, n, got),
							What:   fmt.Sprintf("%s scope strategy decides %v for registered [%q %q] vs requested %q; documented: %v", j.Strategy, got, m, m2, n, w1 || w2),
							Engine: "c12strat", Case: map[string]any{"strategy": j.Strategy, "matcher": m, "matcher2": m2, "needle": n}, Expected: fmt.Sprint(w1 || w2), Observed: got})
					}
				}
			}
		}
	}
	res.sample(map[string]any{"strategy": j.Strategy, "strings": len(strs), "example_pair": []string{strs[len(strs)/2], strs[len(strs)/3]}})
	return res
}

func c12AudURLs() []string {
	var out []string
	for _, scheme := range []string{"https", "http"} {
		for _, host := range []string{"api.example", "API.example", "api.example:8443", "api.example.evil"} {
			for _, path := range []string{"", "/", "/p", "/p/", "/p/q", "/pq", "/p//q", "/P", "/p/q/"} {
				out = append(out, scheme+"://"+host+path)
			}
		}
	}
	return out
}

func c12AudRun() *WRes {
	res := &WRes{}
	urls := c12AudURLs()
	nviol := 0
	for _, a := range urls {
		for _, n := range urls {
			for _, strat := range []string{"default", "exact"} {
				var err error
				if strat == "exact" {
					err = fosite.ExactAudienceMatchingStrategy([]string{a}, []string{n})
				} else {
					err = fosite.DefaultAudienceMatchingStrategy([]string{a}, []string{n})
				}
				got := err == nil
				want, dc := refAudience(strat, []string{a}, []string{n})
				res.Evals++
				if dc {
					res.DontCare++
					continue
				}
				if got {
					res.class("aud-" + strat + ":match")
					res.distinct("aud|" + strat + "|" + a + "|" + n)
				}
				if got != want && nviol < 3 {
					nviol++
					res.violate(Violation{Property: "C12", Fingerprint: fmt.Sprintf("C12/audience=%s/allowed=%q/requested=%q/impl=%v/doc=%v", strat, a, n, got, want),
						What:   fmt.Sprintf("%s audience strategy decides %v for allowed %q vs requested %q; documented %v", strat, got, a, n, want),
						Engine: "c12aud", Case: map[string]any{"strategy": strat, "allowed": a, "needle": n}, Expected: fmt.Sprint(want), Observed: got})
				}
			}
		}
	}
	// lists: every requested audience must be covered
	for i, a := range urls {
		for k, n1 := range urls {
			if (i+k)%9 != 0 {
				continue
			}
			n2 := urls[(k*7+3)%len(urls)]
			got := fosite.DefaultAudienceMatchingStrategy([]string{a}, []string{n1, n2}) == nil
			want, dc := refAudience("default", []string{a}, []string{n1, n2})
			res.Evals++
			if dc {
				res.DontCare++
				continue
			}
			if got != want && nviol < 3 {
				nviol++
				res.violate(Violation{Property: "C12", Fingerprint: fmt.Sprintf("C12/audience-list/allowed=%q/requested=[%q %q]/impl=%v", a, n1, n2, got),
					What:   fmt.Sprintf("default audience strategy decides %v for allowed %q vs requested [%q %q]; documented %v", got, a, n1, n2, want),
					Engine: "c12aud", Case: map[string]any{"strategy": "default", "allowed": a, "needle": n1, "needle2": n2}, Expected: fmt.Sprint(want), Observed: got})
			}
		}
	}
	res.sample(map[string]any{"urls": len(urls), "example": urls[7]})
	return res
}

// ---- part 2: confinement in every flow

type c12FlowCase struct {
	Flow     string `json:"flow"`
	Strategy string `json:"strategy"`
	Scope    string `json:"scope"`    // requested scope list
	Audience string `json:"audience"` // requested audience list
	AudStrat string `json:"aud_strategy"`
	Consent  string `json:"consent,omitempty"` // "" = everything requested is granted | partial = only the first scope and the first audience | scopes-only = every scope, no audience
	JWT      bool   `json:"jwt_access_tokens,omitempty"`
}

var c12Flows = []string{"code", "implicit", "hyb-idt", "hyb-tok", "hyb-all", "client_credentials", "password", "device", "par", "jwt-bearer", "jwt-bearer-key-without-scopes", "refresh", "device-poll-smuggle", "code-redeem-smuggle"}
var c12ScopeFamilies = []string{"a", "zzz", "a zzz", "a.x", "b", "b.c", "b.c.d", "*", "ab", "b.*", "a b.c", ""}
var c12AudFamilies = []string{"", "https://api.example/a", "https://api.example/a/sub", "https://api.example/ab", "https://other.example", "http://api.example/a", "https://api.example/a https://other.example", "https://api.example", "https://api.example/a https://api.example/b", "https://api.example/b https://api.example/a/sub"}

func c12RunFlow(c c12FlowCase, res *WRes) {
	orig := c
	w := NewWorld(Profile{ScopeStrategy: c.Strategy, AudStrategy: c.AudStrat, RefreshScopes: []string{}, JWTAccess: c.JWT})
	reg := append(c05ClientScopes(c.Strategy), "openid")
	cl := w.AddClient("C", "secret-C", false)
	cl.Scopes = reg
	cl.Audience = []string{"https://api.example/a", "https://api.example/b"}
	keyScopes := reg
	if c.Flow == "jwt-bearer-key-without-scopes" {
		// the key is registered for no scope at all: nothing may be requested with it
		keyScopes = nil
		c.Flow = "jwt-bearer"
	}
	if c.Flow == "jwt-bearer" {
		// the key registration is narrower than the client's: only it may confine the grant
		cl.Scopes = append(append([]string(nil), reg...), "zzz", "ab", "*", "a.x", "b.c.d", "b.*", "b")
		k := pubJWK(ecKey("ec256b"), "kid-1", "ES256")
		w.Mem.IssuerPublicKeys["issuer-1"] = storage.IssuerPublicKeys{Issuer: "issuer-1", KeysBySub: map[string]storage.SubjectPublicKeys{
			"subject-1": {Subject: "subject-1", Keys: map[string]storage.PublicKeyScopes{"kid-1": {Key: &k, Scopes: keyScopes}}}}}
	}
	viol := func(fp, what, exp string, obs any) {
		res.violate(Violation{Property: "C12", Fingerprint: fp, What: what, Engine: "c12flow", Case: orig, Expected: exp, Observed: obs})
	}
	reqScopes := strings.Fields(c.Scope)
	reqAud := strings.Fields(c.Audience)
	scopeOK, dcAny := true, false
	for _, s := range reqScopes {
		ok, dc := refScope(c.Strategy, keyScopes, s)
		if dc {
			dcAny = true
		}
		if !ok {
			scopeOK = false
		}
	}
	audStrat := c.AudStrat
	if audStrat == "" {
		audStrat = "default"
	}
	audOK, adc := refAudience(audStrat, cl.Audience, reqAud)
	if adc {
		dcAny = true
	}
	if c.Flow == "jwt-bearer" {
		// there is no audience registration for keys and the handler grants the verified assertion's
		// aud, never the request parameter: only "token aud within granted" is asserted for this flow
		audOK = true
	}
	var o *Obs
	var tokens []string
	scope := c.Scope
	aopt := AuthzOpts{}
	grantedScopes, grantedAud := reqScopes, reqAud
	if c.Consent == "partial" {
		// the resource owner consents to the first requested scope (besides openid) and the first audience only
		first := func(req []string) []string {
			var out []string
			taken := false
			for _, s := range req {
				if s == "openid" {
					out = append(out, s)
				} else if !taken {
					out = append(out, s)
					taken = true
				}
			}
			return out
		}
		aopt.GrantScopes, aopt.GrantAud = first, first
		grantedScopes, grantedAud = first(reqScopes), first(reqAud)
	}
	if c.Consent == "scopes-only" {
		// the resource owner consents to every scope and to no audience at all
		aopt.GrantAud = func([]string) []string { return nil }
		grantedAud = nil
	}
	authz := func(rt string, extraScope string) *Obs {
		p := url.Values{"client_id": {"C"}, "redirect_uri": {"https://C.example/cb"}, "state": {"state-12345678"}, "response_type": {rt}, "nonce": {"nonce-12345678"}}
		sc := strings.TrimSpace(extraScope + " " + scope)
		if sc != "" {
			p.Set("scope", sc)
		}
		if c.Audience != "" {
			p.Set("audience", c.Audience)
		}
		return w.Authorize(p, aopt)
	}
	redeem := func(code string) *Obs {
		return w.Token(url.Values{"grant_type": {"authorization_code"}, "code": {code}, "redirect_uri": {"https://C.example/cb"}}, w.AuthFor("C"))
	}
	gotSomething := false
	switch c.Flow {
	case "code":
		o = authz("code", "")
		if code := o.Param("code"); code != "" {
			gotSomething = true
			t := redeem(code)
			tokens = append(tokens, t.Str("access_token"), t.Str("refresh_token"))
		}
	case "implicit":
		o = authz("token", "")
		if at := o.Param("access_token"); at != "" {
			gotSomething = true
			tokens = append(tokens, at)
		}
	case "hyb-idt", "hyb-tok", "hyb-all":
		rt := map[string]string{"hyb-idt": "code id_token", "hyb-tok": "code token", "hyb-all": "code id_token token"}[c.Flow]
		o = authz(rt, "openid")
		if code := o.Param("code"); code != "" {
			gotSomething = true
			tokens = append(tokens, o.Param("access_token"))
			t := redeem(code)
			tokens = append(tokens, t.Str("access_token"), t.Str("refresh_token"))
		}
	case "client_credentials":
		f := url.Values{"grant_type": {"client_credentials"}}
		if scope != "" {
			f.Set("scope", scope)
		}
		if c.Audience != "" {
			f.Set("audience", c.Audience)
		}
		o = w.Token(f, w.AuthFor("C"))
		if at := o.Str("access_token"); at != "" {
			gotSomething = true
			tokens = append(tokens, at)
		}
	case "password":
		f := url.Values{"grant_type": {"password"}, "username": {"peter"}, "password": {"pw-peter"}}
		if scope != "" {
			f.Set("scope", scope)
		}
		if c.Audience != "" {
			f.Set("audience", c.Audience)
		}
		o = w.Token(f, w.AuthFor("C"))
		if at := o.Str("access_token"); at != "" {
			gotSomething = true
			tokens = append(tokens, at, o.Str("refresh_token"))
		}
	case "device-poll-smuggle", "code-redeem-smuggle":
		// nothing is requested (or granted) at the authorization leg; the case's scope and audience travel with the
		// token request, and the integrator's token endpoint grants whatever the access request says was requested:
		// the token request must not be able to request anything
		scopeOK, audOK, dcAny = true, true, false
		grantedScopes, grantedAud = nil, nil
		tf := url.Values{}
		if c.Flow == "device-poll-smuggle" {
			o = w.DeviceAuth(url.Values{"client_id": {"C"}}, w.AuthFor("C"))
			if o.Str("device_code") == "" {
				break
			}
			w.AcceptUserCode(o.Str("user_code"), true)
			tf = url.Values{"grant_type": {"urn:ietf:params:oauth:grant-type:device_code"}, "device_code": {o.Str("device_code")}}
		} else {
			o = w.Authorize(url.Values{"client_id": {"C"}, "redirect_uri": {"https://C.example/cb"}, "state": {"state-12345678"}, "response_type": {"code"}}, AuthzOpts{})
			if o.Param("code") == "" {
				break
			}
			tf = url.Values{"grant_type": {"authorization_code"}, "code": {o.Param("code")}, "redirect_uri": {"https://C.example/cb"}}
		}
		if scope != "" {
			tf.Set("scope", scope)
		}
		if c.Audience != "" {
			tf.Set("audience", c.Audience)
		}
		t := w.TokenWith(tf, w.AuthFor("C"), TokenOpts{GrantAll: true, GrantRequested: true})
		if issued(t) {
			gotSomething = true
			tokens = append(tokens, t.Str("access_token"), t.Str("refresh_token"))
		} else {
			res.note("sanity:token-request-with-extra-parameters-refused:" + c.Flow + ":" + t.Class())
		}
	case "device":
		f := url.Values{"client_id": {"C"}}
		if scope != "" {
			f.Set("scope", scope)
		}
		if c.Audience != "" {
			f.Set("audience", c.Audience)
		}
		o = w.DeviceAuth(f, w.AuthFor("C"))
		if dc := o.Str("device_code"); dc != "" {
			gotSomething = true
			w.AcceptUserCode(o.Str("user_code"), true)
			t := w.Token(url.Values{"grant_type": {"urn:ietf:params:oauth:grant-type:device_code"}, "device_code": {dc}}, w.AuthFor("C"))
			tokens = append(tokens, t.Str("access_token"), t.Str("refresh_token"))
		}
	case "par":
		f := url.Values{"client_id": {"C"}, "redirect_uri": {"https://C.example/cb"}, "state": {"state-12345678"}, "response_type": {"code"}}
		if scope != "" {
			f.Set("scope", scope)
		}
		if c.Audience != "" {
			f.Set("audience", c.Audience)
		}
		o = w.PAR(f, w.AuthFor("C"))
		if ru := o.Str("request_uri"); ru != "" {
			gotSomething = true
			ao := w.Authorize(url.Values{"client_id": {"C"}, "request_uri": {ru}}, aopt)
			if code := ao.Param("code"); code != "" {
				t := redeem(code)
				tokens = append(tokens, t.Str("access_token"), t.Str("refresh_token"))
			}
		}
	case "jwt-bearer":
		now := w.Now()
		as := signJWT(ecKey("ec256b"), "ES256", "kid-1", map[string]any{"iss": "issuer-1", "sub": "subject-1", "aud": []string{TokenURL}, "exp": now.Add(10 * time.Minute).Unix(), "iat": now.Unix(), "jti": "jti-1"}, nil)
		f := url.Values{"grant_type": {"urn:ietf:params:oauth:grant-type:jwt-bearer"}, "assertion": {as}}
		if scope != "" {
			f.Set("scope", scope)
		}
		if c.Audience != "" {
			f.Set("audience", c.Audience)
		}
		o = w.Token(f, w.AuthFor("C"))
		if at := o.Str("access_token"); at != "" {
			gotSomething = true
			tokens = append(tokens, at)
		}
	case "refresh":
		// original grant in policy; then the registration loses coverage; refresh must be refused
		f := url.Values{"grant_type": {"password"}, "username": {"peter"}, "password": {"pw-peter"}}
		if scope != "" {
			f.Set("scope", scope)
		}
		if c.Audience != "" {
			f.Set("audience", c.Audience)
		}
		first := w.Token(f, w.AuthFor("C"))
		if first.Str("refresh_token") == "" {
			res.class("refresh:no-original-grant")
			return
		}
		// the registration is replaced (a new record), as a real client-management API would do
		nc := *cl
		nc.Scopes = []string{"openid", "photos"}
		nc.Audience = []string{"https://unrelated.example"}
		w.Mem.Clients["C"] = &nc
		o = w.Token(url.Values{"grant_type": {"refresh_token"}, "refresh_token": {first.Str("refresh_token")}}, w.AuthFor("C"))
		if issued(o) && (len(reqScopes) > 0 || len(reqAud) > 0) {
			viol("C12/refresh-after-registration-lost-coverage/strategy="+c.Strategy, fmt.Sprintf("refresh honoured although the client registration no longer covers granted scope %v / audience %v", reqScopes, reqAud), "refusal", o.JSON)
		}
		res.class("refresh:" + o.Class())
		return
	}
	res.Trans++
	res.class(fmt.Sprintf("%s:%s", c.Flow, o.Class()))
	if dcAny {
		res.DontCare++
		return
	}
	if gotSomething && !(scopeOK && audOK) {
		what := "scope"
		if scopeOK {
			what = "audience"
		}
		viol(fmt.Sprintf("C12/flow=%s/accepted-uncovered-%s/strategy=%s/aud=%s", c.Flow, what, c.Strategy, audStrat),
			fmt.Sprintf("flow %s accepted requested scope %q / audience %q although the registration (scopes %v, audience %v) does not cover it under the %s strategy", c.Flow, c.Scope, c.Audience, keyScopes, cl.Audience, c.Strategy), "refusal, nothing issued", o.JSON)
		return
	}
	if !gotSomething && scopeOK && audOK {
		res.note("sanity:in-policy-request-refused:" + c.Flow + ":" + o.Class())
	}
	// one refresh: tokens obtained through later refreshes are confined in the same way
	for _, t := range tokens {
		if strings.HasPrefix(t, "ory_rt_") && c.Flow != "refresh" {
			if ro := w.Token(url.Values{"grant_type": {"refresh_token"}, "refresh_token": {t}}, w.AuthFor("C")); issued(ro) {
				tokens = append(tokens, ro.Str("access_token"), ro.Str("refresh_token"))
				res.note("refreshed-token-payload-checked")
			}
			break
		}
	}
	// tokens never carry what was not granted
	for _, t := range tokens {
		if t == "" {
			continue
		}
		act, io := w.Active(t)
		if !act {
			continue
		}
		allowed := map[string]bool{}
		for _, s := range grantedScopes {
			allowed[s] = true
		}
		if strings.HasPrefix(c.Flow, "hyb") {
			allowed["openid"] = true
		}
		for _, s := range strings.Fields(io.Str("scope")) {
			if !allowed[s] {
				viol("C12/token-carries-ungranted-scope/flow="+c.Flow+"/consent="+c.Consent, fmt.Sprintf("token from flow %s carries scope %q that was not granted (%v)", c.Flow, s, grantedScopes), "subset of granted", io.JSON)
			}
		}
		auds, _ := io.JSON["aud"].([]any)
		for _, a := range auds {
			ok := false
			for _, r := range grantedAud {
				if r == a {
					ok = true
				}
			}
			if c.Flow == "jwt-bearer" && a == TokenURL {
				ok = true
			}
			if !ok {
				viol("C12/token-carries-ungranted-audience/flow="+c.Flow+"/consent="+c.Consent, fmt.Sprintf("token from flow %s carries audience %v that was not granted (%v)", c.Flow, a, grantedAud), "subset of granted", io.JSON)
			}
		}
		// a JWT access token names scope and audience itself (read offline by resource servers)
		if js, ja, isJWT := jwtAccessClaims(t); isJWT {
			for _, s := range js {
				if !allowed[s] {
					viol("C12/jwt-token-names-ungranted-scope/flow="+c.Flow+"/consent="+c.Consent, fmt.Sprintf("the JWT access token from flow %s names scope %q that was not granted (%v)", c.Flow, s, grantedScopes), "subset of granted", js)
				}
			}
			for _, a := range ja {
				ok := false
				for _, r := range grantedAud {
					if r == a {
						ok = true
					}
				}
				if c.Flow == "jwt-bearer" && a == TokenURL {
					ok = true
				}
				if !ok {
					viol("C12/jwt-token-names-ungranted-audience/flow="+c.Flow+"/consent="+c.Consent, fmt.Sprintf("the JWT access token from flow %s names audience %q that was not granted (%v)", c.Flow, a, grantedAud), "subset of granted", ja)
				}
			}
			res.note("jwt-token-claims-checked")
		}
		res.note("token-payload-checked")
	}
}

func init() {
	registerWorker("c12strat", func(arg json.RawMessage) (any, error) {
		var j c12StratJob
		if err := json.Unmarshal(arg, &j); err != nil {
			return nil, err
		}
		if j.Strategy == "audience" {
			return c12AudRun(), nil
		}
		return c12StratRun(j), nil
	})
	registerWorker("c12flow", func(arg json.RawMessage) (any, error) {
		var j struct {
			Flow, Strategy, AudStrat string
			JWT                      bool
		}
		if err := json.Unmarshal(arg, &j); err != nil {
			return nil, err
		}
		res := &WRes{}
		consents := []string{""}
		if j.Flow == "code" || j.Flow == "implicit" || strings.HasPrefix(j.Flow, "hyb") || j.Flow == "par" {
			consents = []string{"", "partial", "scopes-only"}
		}
		for _, sc := range c12ScopeFamilies {
			for _, au := range c12AudFamilies {
				for _, cs := range consents {
					c := c12FlowCase{Flow: j.Flow, Strategy: j.Strategy, Scope: sc, Audience: au, AudStrat: j.AudStrat, Consent: cs, JWT: j.JWT}
					c12RunFlow(c, res)
					res.Evals++
					res.distinct(fmt.Sprintf("%+v", c))
					res.sample(c)
				}
			}
		}
		return res, nil
	})
	replayFns["c12strat"] = func(raw json.RawMessage) ([]Violation, error) {
		var c struct{ Strategy, Matcher, Matcher2, Needle string }
		if err := json.Unmarshal(raw, &c); err != nil {
			return nil, err
		}
		hay := []string{c.Matcher}
		if c.Matcher2 != "" {
			hay = append(hay, c.Matcher2)
		}
		got := c12Impl(c.Strategy)(hay, c.Needle)
		want := false
		for _, m := range hay {
			w, _ := refScope(c.Strategy, []string{m}, c.Needle)
			want = want || w
		}
		if got != want {
			fp := fmt.Sprintf("C12/strategy=%s/matcher=%q/needle=%q/impl=%v/doc=%v", c.Strategy, c.Matcher, c.Needle, got, want)
			if c.Matcher2 != "" {
				fp = fmt.Sprintf("C12/strategy=%s/haystack=[%q %q]/needle=%q/impl=%v", c.Strategy, c.Matcher, c.Matcher2, c.Needle, got)
			}
			return []Violation{{Property: "C12", Fingerprint: fp, What: "strategy disagrees with documentation", Observed: got, Expected: fmt.Sprint(want)}}, nil
		}
		return nil, nil
	}
	replayFns["c12aud"] = func(raw json.RawMessage) ([]Violation, error) {
		var c struct{ Strategy, Allowed, Needle, Needle2 string }
		if err := json.Unmarshal(raw, &c); err != nil {
			return nil, err
		}
		needles := []string{c.Needle}
		if c.Needle2 != "" {
			needles = append(needles, c.Needle2)
		}
		var err error
		if c.Strategy == "exact" {
			err = fosite.ExactAudienceMatchingStrategy([]string{c.Allowed}, needles)
		} else {
			err = fosite.DefaultAudienceMatchingStrategy([]string{c.Allowed}, needles)
		}
		got := err == nil
		want, _ := refAudience(c.Strategy, []string{c.Allowed}, needles)
		if got != want {
			fp := fmt.Sprintf("C12/audience=%s/allowed=%q/requested=%q/impl=%v/doc=%v", c.Strategy, c.Allowed, c.Needle, got, want)
			if c.Needle2 != "" {
				fp = fmt.Sprintf("C12/audience-list/allowed=%q/requested=[%q %q]/impl=%v", c.Allowed, c.Needle, c.Needle2, got)
			}
			return []Violation{{Property: "C12", Fingerprint: fp, What: "audience strategy disagrees with documentation", Observed: got, Expected: fmt.Sprint(want)}}, nil
		}
		return nil, nil
	}
	replayFns["c12flow"] = func(raw json.RawMessage) ([]Violation, error) {
		var c c12FlowCase
		if err := json.Unmarshal(raw, &c); err != nil {
			return nil, err
		}
		res := &WRes{}
		c12RunFlow(c, res)
		return res.Viol, nil
	}
	registerCheck("C12", "exploration", 120*time.Second, 20*time.Minute, func(r *Run) {
		maxSeg := 5
		if !r.Quick() {
			maxSeg = 6
		}
		var jobs []any
		shards := 16
		for _, st := range []string{"exact", "wildcard", "hierarchic"} {
			for s := 0; s < shards; s++ {
				jobs = append(jobs, c12StratJob{Strategy: st, MaxSeg: maxSeg, Shard: s, Shards: shards})
			}
		}
		jobs = append(jobs, c12StratJob{Strategy: "audience"})
		r.Bounds = map[string]any{"segment_alphabet": c12Symbols, "max_segments": maxSeg, "strings": len(c12Strings(maxSeg)), "audience_urls": len(c12AudURLs()),
			"flows": c12Flows, "scope_families": c12ScopeFamilies, "audience_families": c12AudFamilies, "strategies": []string{"exact", "wildcard", "hierarchic"}, "audience_strategies": []string{"default", "exact"}, "access_tokens": "opaque under every strategy; JWT (claims decoded) under the hierarchic one", "consent": "full, partial (first scope + first audience only) and scopes-only (every scope, no audience) for the authorization-endpoint flows; every refresh token obtained is refreshed once and the new tokens are checked too"}
		r.Rule = "part 1: all (registered, requested) pairs of dotted strings over the segment alphabet up to max_segments, two-sided against the documented semantics (plus a fixed sub-grid of 2-element haystacks), all pairs of the audience URL grid; part 2: every flow x scope strategy x audience strategy x requested scope family x requested audience family on a fresh provider, one-sided (uncovered => nothing issued; token scope/aud within granted); distinct = distinct matching pairs + distinct flow cases"
		r.Assumptions = []string{"documented semantics as transcribed in refstrat.go; empty segments absorbed by a trailing wildcard and host-case differences are don't-care"}
		res := r.Pool.Do("c12strat", jobs, r.Deadline)
		if !r.MergeJobs(res) {
			r.Exhaustive = false
		}
		var fj []any
		for _, fl := range c12Flows {
			for _, st := range []string{"exact", "wildcard", "hierarchic"} {
				for _, as := range []string{"", "exact"} {
					fj = append(fj, map[string]any{"Flow": fl, "Strategy": st, "AudStrat": as, "JWT": false})
					if st == "hierarchic" {
						// JWT access tokens: the claims the token names itself are held to the same bound
						fj = append(fj, map[string]any{"Flow": fl, "Strategy": st, "AudStrat": as, "JWT": true})
					}
				}
			}
		}
		res = r.Pool.Do("c12flow", fj, r.Deadline)
		if !r.MergeJobs(res) {
			r.Exhaustive = false
		}
		if r.Agg.Notes["token-payload-checked"] == 0 {
			r.HarnessErrs = append(r.HarnessErrs, "vacuous: no token payload was checked")
		}
	})
}
