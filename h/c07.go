package main

import (
	"encoding/json"
	"fmt"
	"net/url"
	"reflect"
	"strings"
	"time"

	"github.com/ory/fosite"
	"github.com/ory/fosite/storage"
)

// C07 — nothing is honoured after it has expired; advertised lifetimes are consistent; per-client
// overrides apply exactly to their grant/token-type pair.

type c07Case struct {
	Kind     string `json:"kind"`
	Source   string `json:"source"` // default | configured | client-override
	OffsetMS int    `json:"offset_ms"`
	Position string `json:"position"` // fresh | after-history
	AgeRel   int    `json:"age_rel"`  // seconds relative to the effective lifetime (negative = before expiry)
	AgeAbs   int    `json:"age_abs,omitempty"`
	ExpEnc   string `json:"exp_enc,omitempty"` // assertions: int | float | float-frac | string
	Session  string `json:"session,omitempty"` // session implementation handed to the library
}

var c07Kinds = []string{"code", "at-code", "at-password", "at-cc", "at-refresh", "at-implicit", "at-device", "at-jwtbearer", "jwt-at-code", "jwt-at-refresh", "idt-code", "idt-implicit", "idt-hybrid-front", "idt-hybrid-token", "idt-refresh", "rt-code", "rt-password", "rt-refresh", "rt-unlimited",
	"device-code", "user-code", "par", "bearer-assertion", "client-assertion", "request-object", "at-as-bearer", "at-password/abandoned-refresh", "at-code/abandoned-redeem"}
var c07AgesRel = []int{-1000000, -10, -3, -2, 2, 3, 10, 30, 3600, 86400}
var c07AgesDeep = []int{-1000000, -86400, -3600, -600, -60, -10, -5, -4, -3, -2, 2, 3, 4, 5, 10, 30, 60, 600, 3600, 86400, 2592000, 31536000}

// per-client override values (seconds), all distinct
var c07Override = map[string]int{
	"AuthorizationCodeGrantAccessTokenLifespan": 110, "AuthorizationCodeGrantIDTokenLifespan": 120, "AuthorizationCodeGrantRefreshTokenLifespan": 130,
	"ClientCredentialsGrantAccessTokenLifespan": 140, "ImplicitGrantAccessTokenLifespan": 150, "ImplicitGrantIDTokenLifespan": 160, "JwtBearerGrantAccessTokenLifespan": 170,
	"PasswordGrantAccessTokenLifespan": 180, "PasswordGrantRefreshTokenLifespan": 190, "RefreshTokenGrantIDTokenLifespan": 200, "RefreshTokenGrantAccessTokenLifespan": 210, "RefreshTokenGrantRefreshTokenLifespan": 220,
}

func c07Lifespans() *fosite.ClientLifespanConfig { return c07LifespansOf(c07Override) }

func c07LifespansOf(override map[string]int) *fosite.ClientLifespanConfig {
	l := &fosite.ClientLifespanConfig{}
	v := reflect.ValueOf(l).Elem()
	for name, secs := range override {
		d := time.Duration(secs) * time.Second
		f := v.FieldByName(name)
		if !f.IsValid() {
			panic("ClientLifespanConfig has no field " + name)
		}
		f.Set(reflect.ValueOf(&d))
	}
	return l
}

// effective lifetime (seconds) the statement prescribes for kind under source
func c07Leff(kind, source string) int {
	def := map[string]int{"code": 600, "at": 3600, "rt": 2592000, "dev": 600, "par": 300}
	switch source {
	case "configured":
		def = map[string]int{"code": 90, "at": 500, "rt": 1000, "dev": 600, "par": 300}
	case "configured-short":
		def = map[string]int{"code": 4, "at": 6, "rt": 8, "dev": 600, "par": 300}
	case "configured-long":
		def = map[string]int{"code": 86400, "at": 200000, "rt": 7776000, "dev": 600, "par": 300}
	case "session-provided":
		if kind == "at-implicit" || kind == "at-code/abandoned-redeem" {
			return 77
		}
	case "rt-unlimited":
		def["rt"] = -1
	case "refresh-override-unlimited":
		// server: refresh tokens live 1000 s; this client's refresh-grant refresh tokens are unlimited (-1)
		def = map[string]int{"code": 90, "at": 500, "rt": 1000, "dev": 600, "par": 300}
		if kind == "rt-refresh" {
			return -1
		}
	case "rt-unlimited+code-override-only":
		// server: unlimited; this client's code-grant refresh tokens live 130 s, its refresh-grant ones fall back to unlimited
		def["rt"] = -1
		if kind == "rt-code" {
			return c07Override["AuthorizationCodeGrantRefreshTokenLifespan"]
		}
	}
	if kind == "rt-unlimited" && source == "client-override" {
		return c07Override["AuthorizationCodeGrantRefreshTokenLifespan"]
	}
	ov := func(field, base string) int {
		if source == "client-override" || source == "rt-unlimited+override" {
			return c07Override[field]
		}
		return def[base]
	}
	switch kind {
	case "code":
		return def["code"]
	case "at-code", "jwt-at-code", "at-as-bearer", "at-code/abandoned-redeem":
		return ov("AuthorizationCodeGrantAccessTokenLifespan", "at")
	case "at-password", "at-password/abandoned-refresh":
		return ov("PasswordGrantAccessTokenLifespan", "at")
	case "at-cc":
		return ov("ClientCredentialsGrantAccessTokenLifespan", "at")
	case "at-refresh", "jwt-at-refresh":
		return ov("RefreshTokenGrantAccessTokenLifespan", "at")
	case "at-implicit":
		return ov("ImplicitGrantAccessTokenLifespan", "at")
	case "at-jwtbearer":
		return ov("JwtBearerGrantAccessTokenLifespan", "at")
	case "at-device":
		return def["at"]
	case "idt-code", "idt-hybrid-token":
		if source == "client-override" {
			return c07Override["AuthorizationCodeGrantIDTokenLifespan"]
		}
		return 3600
	case "idt-implicit", "idt-hybrid-front":
		if source == "client-override" {
			return c07Override["ImplicitGrantIDTokenLifespan"]
		}
		return 3600
	case "idt-refresh":
		if source == "client-override" {
			return c07Override["RefreshTokenGrantIDTokenLifespan"]
		}
		return 3600
	case "rt-code":
		return ov("AuthorizationCodeGrantRefreshTokenLifespan", "rt")
	case "rt-password":
		return ov("PasswordGrantRefreshTokenLifespan", "rt")
	case "rt-refresh":
		return ov("RefreshTokenGrantRefreshTokenLifespan", "rt")
	case "device-code", "user-code":
		return def["dev"]
	case "par":
		return def["par"]
	case "bearer-assertion", "client-assertion", "request-object":
		return 240
	}
	return -1
}

func c07Run(c c07Case, res *WRes) {
	p := Profile{Session: c.Session}
	switch c.Source {
	case "configured":
		p.CodeLifespan, p.ATLifespan, p.RTLifespan = 90, 500, 1000
	case "configured-short":
		p.CodeLifespan, p.ATLifespan, p.RTLifespan = 4, 6, 8
	case "configured-long":
		p.CodeLifespan, p.ATLifespan, p.RTLifespan = 86400, 200000, 7776000
	case "rt-unlimited", "rt-unlimited+override", "rt-unlimited+code-override-only":
		p.RTLifespan = -1
	case "refresh-override-unlimited":
		p.CodeLifespan, p.ATLifespan, p.RTLifespan = 90, 500, 1000
	}
	if c.Kind == "rt-unlimited" {
		p.RTLifespan = -1
	}
	if strings.HasPrefix(c.Kind, "jwt-at-") {
		p.JWTAccess = true
	}
	w := NewWorld(p)
	viol := func(fp, what, exp string, obs any) {
		res.violate(Violation{Property: "C07", Fingerprint: fp, What: what, Engine: "c07", Case: c, Expected: exp, Observed: obs})
	}
	// the client: plain, or with per-client lifetimes
	base := w.AddClient("L", "secret-L", false)
	switch c.Source {
	case "refresh-override-unlimited":
		w.Mem.Clients["L"] = &fosite.DefaultClientWithCustomTokenLifespans{DefaultClient: base, TokenLifespans: c07LifespansOf(map[string]int{"RefreshTokenGrantRefreshTokenLifespan": -1})}
	case "rt-unlimited+code-override-only":
		w.Mem.Clients["L"] = &fosite.DefaultClientWithCustomTokenLifespans{DefaultClient: base, TokenLifespans: c07LifespansOf(map[string]int{"AuthorizationCodeGrantRefreshTokenLifespan": c07Override["AuthorizationCodeGrantRefreshTokenLifespan"]})}
	}
	if c.Source == "client-override" || c.Source == "rt-unlimited+override" {
		w.Mem.Clients["L"] = &fosite.DefaultClientWithCustomTokenLifespans{DefaultClient: base, TokenLifespans: c07Lifespans()}
	}
	auth := w.AuthFor("L")
	if c.Position == "after-history" {
		o := w.Token(url.Values{"grant_type": {"password"}, "username": {"peter"}, "password": {"pw-peter"}, "scope": {"offline a"}}, w.AuthFor("B"))
		w.Token(url.Values{"grant_type": {"refresh_token"}, "refresh_token": {o.Str("refresh_token")}}, w.AuthFor("B"))
		w.Advance(17 * time.Second)
	}
	w.Advance(time.Duration(c.OffsetMS) * time.Millisecond)
	leff := c07Leff(c.Kind, c.Source)
	var present func() (bool, *Obs)
	advertised := -1.0
	aopt := AuthzOpts{}
	if c.Source == "session-provided" {
		// the application fixes the access token's expiry in the session it hands to the library
		at := w.Now().Add(77 * time.Second)
		aopt.Prep = func(s fosite.Session) { s.SetExpiresAt(fosite.AccessToken, at) }
	}
	authz := func(rt, scope string) *Obs {
		return w.Authorize(url.Values{"client_id": {"L"}, "redirect_uri": {"https://L.example/cb"}, "state": {"state-12345678"}, "response_type": {rt}, "scope": {scope}, "nonce": {"nonce-12345678"}}, aopt)
	}
	redeem := func(code string) *Obs {
		return w.Token(url.Values{"grant_type": {"authorization_code"}, "code": {code}, "redirect_uri": {"https://L.example/cb"}}, auth)
	}
	introspect := func(tok string) func() (bool, *Obs) { return func() (bool, *Obs) { return w.Active(tok) } }
	ei := func(o *Obs) float64 {
		if v, ok := o.JSON["expires_in"].(float64); ok {
			return v
		}
		return -1
	}
	switch c.Kind {
	case "code":
		ao := authz("code", "offline a")
		code := ao.Param("code")
		present = func() (bool, *Obs) { o := redeem(code); return issued(o), o }
	case "at-code", "rt-code", "jwt-at-code", "jwt-at-refresh", "rt-unlimited", "at-refresh", "rt-refresh", "at-as-bearer":
		to := redeem(authz("code", "offline a").Param("code"))
		if strings.HasSuffix(c.Kind, "-refresh") {
			to = w.Token(url.Values{"grant_type": {"refresh_token"}, "refresh_token": {to.Str("refresh_token")}}, auth)
		}
		at, rt := to.Str("access_token"), to.Str("refresh_token")
		rtMint := w.Now()
		switch {
		case c.Kind == "at-as-bearer":
			advertised = ei(to)
			other := w.Token(url.Values{"grant_type": {"client_credentials"}, "scope": {"a"}}, w.AuthFor("B")).Str("access_token")
			// the other token lives 3600 s under every source; only probe ages where it is certainly alive
			present = func() (bool, *Obs) {
				o := w.Introspect(other, "", "", Auth{Mode: "omit"}, at)
				act, _ := o.JSON["active"].(bool)
				return act && o.Err == "", o
			}
		case strings.HasPrefix(c.Kind, "rt"):
			present = func() (bool, *Obs) {
				io := w.Introspect(rt, "refresh_token", "", w.AuthFor("I"), "")
				ia, _ := io.JSON["active"].(bool)
				if e, has := io.JSON["exp"].(float64); ia && has {
					// the exp advertised for a refresh token must be the instant the refresh token stops being honoured
					want := float64(rtMint.Unix()) + float64(leff)
					if leff < 0 || e < want-1.5 || e > want+1.5 {
						viol(fmt.Sprintf("C07/introspection-advertises-wrong-exp-for-refresh-token/%s/source=%s", c.Kind, c.Source), fmt.Sprintf("introspection of an active refresh token advertises exp=%v (%v s after it was minted); its effective lifetime under source %q is %d s (-1 = unlimited)", e, e-float64(rtMint.Unix()), c.Source, leff), "the refresh token's own expiry (none if unlimited)", io.JSON)
					}
				}
				o := w.Token(url.Values{"grant_type": {"refresh_token"}, "refresh_token": {rt}}, auth)
				if ia != issued(o) {
					viol("C07/introspection-and-token-endpoint-disagree/"+c.Kind, fmt.Sprintf("refresh token: introspection says active=%v, the token endpoint honours it=%v", ia, issued(o)), "agreement", o.JSON)
				}
				return issued(o), o
			}
		default:
			advertised = ei(to)
			if strings.HasPrefix(c.Kind, "jwt-at-") {
				if _, cl, err := decodeJWT(at); err == nil {
					if e, ok := cl["exp"].(float64); ok {
						adv2 := e - float64(w.Now().Unix())
						if adv2 < advertised-1.5 || adv2 > advertised+1.5 {
							viol("C07/jwt-exp-differs-from-expires_in", fmt.Sprintf("JWT exp is %v s away, expires_in says %v", adv2, advertised), "consistent", cl)
						}
					}
				}
			}
			present = introspect(at)
		}
	case "idt-code", "idt-implicit", "idt-hybrid-front", "idt-hybrid-token", "idt-refresh":
		// ID tokens: only the advertised lifetime (exp) is judged: it must be the one of the grant / token-type pair
		// that minted this particular token
		idt := ""
		switch c.Kind {
		case "idt-code", "idt-refresh":
			to := redeem(authz("code", "openid offline a").Param("code"))
			if c.Kind == "idt-refresh" {
				w.Advance(7 * time.Second)
				to = w.Token(url.Values{"grant_type": {"refresh_token"}, "refresh_token": {to.Str("refresh_token")}}, auth)
			}
			idt = to.Str("id_token")
		case "idt-implicit":
			idt = authz("id_token", "openid a").Param("id_token")
		case "idt-hybrid-front", "idt-hybrid-token":
			ao := authz("code id_token", "openid offline a")
			idt = ao.Param("id_token")
			if c.Kind == "idt-hybrid-token" {
				w.Advance(7 * time.Second)
				idt = redeem(ao.Param("code")).Str("id_token")
			}
		}
		if idt == "" {
			res.note("sanity:mint-failed:" + c.Kind)
			return
		}
		_, cl, err := decodeJWT(idt)
		if err != nil {
			res.note("sanity:id-token-not-a-jwt")
			return
		}
		exp, _ := cl["exp"].(float64)
		adv := exp - float64(w.Now().Unix())
		res.Trans++
		res.class(fmt.Sprintf("%s:lifetime-checked", c.Kind))
		if adv < float64(leff)-1.5 || adv > float64(leff)+1.5 {
			viol(fmt.Sprintf("C07/id-token-lifetime-wrong/%s/source=%s", c.Kind, c.Source), fmt.Sprintf("the ID token of %s expires %v s after it was minted; the effective lifetime for this grant / token-type pair under source %q is %d s", c.Kind, adv, c.Source, leff), fmt.Sprint(leff), cl)
		}
		return
	case "at-password/abandoned-refresh":
		to := w.Token(url.Values{"grant_type": {"password"}, "username": {"peter"}, "password": {"pw-peter"}, "scope": {"offline a"}}, auth)
		advertised = ei(to)
		at, rt := to.Str("access_token"), to.Str("refresh_token")
		present = func() (bool, *Obs) {
			// a refresh is validated but never answered; the access token's own clock must not move
			w.TokenAbandoned(url.Values{"grant_type": {"refresh_token"}, "refresh_token": {rt}}, auth)
			return w.Active(at)
		}
	case "at-code/abandoned-redeem":
		// hybrid: the authorization endpoint issues an access token; the code is then presented but never answered
		ao := w.Authorize(url.Values{"client_id": {"L"}, "redirect_uri": {"https://L.example/cb"}, "state": {"state-12345678"}, "response_type": {"code token"}, "scope": {"openid offline a"}, "nonce": {"nonce-12345678"}}, aopt)
		at, code := ao.Param("access_token"), ao.Param("code")
		if v := ao.Param("expires_in"); v != "" {
			fmt.Sscan(v, &advertised)
		}
		leff = c07Leff("at-implicit", c.Source)
		if c.Source == "client-override" {
			leff = -1 // hybrid lifetimes are documented as not independently configurable
			advertised = -1
		}
		present = func() (bool, *Obs) {
			w.TokenAbandoned(url.Values{"grant_type": {"authorization_code"}, "code": {code}, "redirect_uri": {"https://L.example/cb"}}, auth)
			return w.Active(at)
		}
	case "at-password", "rt-password":
		to := w.Token(url.Values{"grant_type": {"password"}, "username": {"peter"}, "password": {"pw-peter"}, "scope": {"offline a"}}, auth)
		if c.Kind == "at-password" {
			advertised = ei(to)
			present = introspect(to.Str("access_token"))
		} else {
			rt := to.Str("refresh_token")
			present = func() (bool, *Obs) {
				o := w.Token(url.Values{"grant_type": {"refresh_token"}, "refresh_token": {rt}}, auth)
				return issued(o), o
			}
		}
	case "at-cc":
		to := w.Token(url.Values{"grant_type": {"client_credentials"}, "scope": {"a"}}, auth)
		advertised = ei(to)
		present = introspect(to.Str("access_token"))
	case "at-implicit":
		ao := authz("token", "a")
		if v := ao.Param("expires_in"); v != "" {
			fmt.Sscan(v, &advertised)
		}
		present = introspect(ao.Param("access_token"))
	case "at-jwtbearer", "bearer-assertion":
		k := pubJWK(ecKey("ec256b"), "kid-1", "ES256")
		w.Mem.IssuerPublicKeys["issuer-1"] = storage.IssuerPublicKeys{Issuer: "issuer-1", KeysBySub: map[string]storage.SubjectPublicKeys{
			"subject-1": {Subject: "subject-1", Keys: map[string]storage.PublicKeyScopes{"kid-1": {Key: &k, Scopes: []string{"a"}}}}}}
		now := w.Now()
		mk := func(expSecs int) string {
			return signJWT(ecKey("ec256b"), "ES256", "kid-1", map[string]any{"iss": "issuer-1", "sub": "subject-1", "aud": []string{TokenURL}, "exp": c07EncodeExp(c.ExpEnc, now, expSecs), "iat": now.Unix(), "jti": "jti-c07"}, nil)
		}
		if c.Kind == "at-jwtbearer" {
			to := w.Token(url.Values{"grant_type": {"urn:ietf:params:oauth:grant-type:jwt-bearer"}, "assertion": {mk(600)}, "scope": {"a"}}, auth)
			advertised = ei(to)
			present = introspect(to.Str("access_token"))
		} else {
			as := mk(240)
			present = func() (bool, *Obs) {
				o := w.Token(url.Values{"grant_type": {"urn:ietf:params:oauth:grant-type:jwt-bearer"}, "assertion": {as}, "scope": {"a"}}, auth)
				return issued(o), o
			}
		}
	case "client-assertion":
		kc := pubJWK(ecKey("ec256b"), "ck-1", "ES256")
		jc := &fosite.DefaultOpenIDConnectClient{DefaultClient: w.AddClient("J", "", false), JSONWebKeys: jwks(kc), TokenEndpointAuthMethod: "private_key_jwt", TokenEndpointAuthSigningAlgorithm: "ES256"}
		w.Mem.Clients["J"] = jc
		now := w.Now()
		as := signJWT(ecKey("ec256b"), "ES256", "ck-1", map[string]any{"iss": "J", "sub": "J", "aud": TokenURL, "exp": c07EncodeExp(c.ExpEnc, now, 240), "iat": now.Unix(), "jti": "jti-client-c07"}, nil)
		present = func() (bool, *Obs) {
			o := w.Token(url.Values{"grant_type": {"client_credentials"}, "scope": {"a"}}, Auth{Mode: "omit", Extra: url.Values{"client_assertion_type": {"urn:ietf:params:oauth:client-assertion-type:jwt-bearer"}, "client_assertion": {as}}})
			return issued(o), o
		}
	case "request-object":
		// a signed OpenID Connect request object (a JWT with an exp of its own) presented at the authorization endpoint
		ro := &fosite.DefaultOpenIDConnectClient{DefaultClient: w.AddClient("Q", "secret-Q", false), RequestObjectSigningAlgorithm: "RS256", JSONWebKeys: jwks(pubJWK(rsaKey("rsa1"), "rk", "RS256"))}
		ro.DefaultClient.RedirectURIs = []string{"https://Q.example/cb"}
		w.Mem.Clients["Q"] = ro
		now := w.Now()
		obj := signJWT(rsaKey("rsa1"), "RS256", "rk", map[string]any{"iss": "Q", "aud": IssuerURL, "client_id": "Q", "response_type": "code", "redirect_uri": "https://Q.example/cb", "scope": "openid a", "state": "ro-state-0123456789", "exp": c07EncodeExp(c.ExpEnc, now, 240)}, nil)
		present = func() (bool, *Obs) {
			o := w.Authorize(url.Values{"client_id": {"Q"}, "response_type": {"code"}, "redirect_uri": {"https://Q.example/cb"}, "scope": {"openid a"}, "state": {"state-12345678"}, "nonce": {"nonce-12345678"}, "request": {obj}}, AuthzOpts{Subject: "user-1"})
			return o.Param("code") != "", o
		}
	case "at-device", "device-code", "user-code":
		do := w.DeviceAuth(url.Values{"client_id": {"L"}, "scope": {"offline a"}}, auth)
		dc, uc := do.Str("device_code"), do.Str("user_code")
		switch c.Kind {
		case "device-code":
			advertised = ei(do)
			w.AcceptUserCode(uc, true)
			present = func() (bool, *Obs) {
				o := w.Token(url.Values{"grant_type": {"urn:ietf:params:oauth:grant-type:device_code"}, "device_code": {dc}}, auth)
				return issued(o), o
			}
		case "user-code":
			advertised = ei(do)
			present = func() (bool, *Obs) {
				sig, _ := w.Dev.UserCodeSignature(nil, uc)
				req, ok := w.Mem.DeviceAuths[sig]
				if !ok {
					return false, &Obs{Err: "gone"}
				}
				err := w.Dev.ValidateUserCode(nil, req, uc)
				return err == nil, &Obs{Err: fmt.Sprint(err)}
			}
		default:
			w.AcceptUserCode(uc, true)
			to := w.Token(url.Values{"grant_type": {"urn:ietf:params:oauth:grant-type:device_code"}, "device_code": {dc}}, auth)
			advertised = ei(to)
			present = introspect(to.Str("access_token"))
		}
	case "par":
		po := w.PAR(url.Values{"client_id": {"L"}, "redirect_uri": {"https://L.example/cb"}, "state": {"state-12345678"}, "response_type": {"code"}, "scope": {"a"}}, auth)
		advertised = ei(po)
		ru := po.Str("request_uri")
		present = func() (bool, *Obs) {
			o := w.Authorize(url.Values{"client_id": {"L"}, "request_uri": {ru}}, AuthzOpts{})
			return o.Param("code") != "", o
		}
	}
	if present == nil {
		res.note("sanity:mint-failed:" + c.Kind)
		return
	}
	// advertised lifetime vs the effective one
	if advertised >= 0 && leff > 0 {
		if advertised < float64(leff)-1.01 || advertised > float64(leff)+1.01 {
			viol(fmt.Sprintf("C07/advertised-lifetime-wrong/%s/source=%s", c.Kind, c.Source), fmt.Sprintf("%s advertises a lifetime of %v s, the effective lifetime for this grant/token pair under source %q is %d s", c.Kind, advertised, c.Source, leff), fmt.Sprint(leff), advertised)
			return
		}
	}
	// age
	unlimitedByOverride := (c.Source == "refresh-override-unlimited" || c.Source == "rt-unlimited+code-override-only") && c.Kind == "rt-refresh"
	if (c.Kind == "rt-unlimited" && c.Source != "client-override") || (c.Source == "rt-unlimited" && strings.HasPrefix(c.Kind, "rt-")) || unlimitedByOverride {
		w.Advance(10 * 365 * 24 * time.Hour)
		ok, o := present()
		res.Trans++
		if !ok && unlimitedByOverride {
			viol(fmt.Sprintf("C07/unlimited-lifetime-not-applied/%s/source=%s", c.Kind, c.Source), fmt.Sprintf("the refresh token obtained by refreshing is configured to be unlimited for this client and grant (source %s), yet it is refused later on: the lifetime of another grant/token pair was applied", c.Source), "honoured", o.JSON)
		} else if !ok {
			res.note("sanity:unlimited-refresh-token-refused:" + o.Class())
		} else {
			res.note("unlimited-refresh-honoured-at-10y")
		}
		return
	}
	if leff < 0 {
		return
	}
	age := leff + c.AgeRel
	if c.AgeRel == -1000000 {
		age = 1
	}
	if age < 0 {
		return
	}
	if c.Kind == "at-as-bearer" && age > 3500 {
		return
	}
	if c.Position == "split" {
		// the credential ages in two steps with an unrelated grant and refresh by another client in between
		w.Advance(time.Duration(age/2) * time.Second)
		uo := w.Token(url.Values{"grant_type": {"password"}, "username": {"peter"}, "password": {"pw-peter"}, "scope": {"offline a"}}, w.AuthFor("B"))
		w.Token(url.Values{"grant_type": {"refresh_token"}, "refresh_token": {uo.Str("refresh_token")}}, w.AuthFor("B"))
		w.Advance(time.Duration(age-age/2) * time.Second)
	} else {
		w.Advance(time.Duration(age) * time.Second)
	}
	ok, o := present()
	res.Trans++
	res.class(fmt.Sprintf("%s:%s:honoured=%v", c.Kind, map[bool]string{true: "after-expiry", false: "before-expiry"}[c.AgeRel > 0], ok))
	if c.AgeRel >= 2 && ok {
		viol(fmt.Sprintf("C07/honoured-after-expiry/%s/source=%s/exp=%s", c.Kind, c.Source, c.ExpEnc), fmt.Sprintf("%s was honoured %d s after its expiry instant (lifetime %d s, source %s)", c.Kind, c.AgeRel, leff, c.Source), "refused", o.JSON)
	}
	if c.AgeRel <= -2 && !ok {
		if advertised >= 0 {
			viol(fmt.Sprintf("C07/refused-before-advertised-expiry/%s/source=%s", c.Kind, c.Source), fmt.Sprintf("%s was refused %d s before the expiry it advertised (%v s)", c.Kind, -c.AgeRel, advertised), "honoured", o.Class())
		} else {
			res.note("sanity:refused-before-expiry:" + c.Kind + ":" + o.Class())
		}
	}
}

func c07EncodeExp(enc string, now time.Time, secs int) any {
	e := now.Add(time.Duration(secs) * time.Second).Unix()
	switch enc {
	case "float":
		return float64(e)
	case "float-frac":
		return float64(e) + 0.5
	case "string":
		return fmt.Sprint(e)
	}
	return e
}

// c07Table: per-client overrides apply exactly to their grant / token-type pair.
func c07Table(res *WRes) {
	pairs := map[string][2]string{
		"AuthorizationCodeGrantAccessTokenLifespan": {"authorization_code", "access_token"}, "AuthorizationCodeGrantIDTokenLifespan": {"authorization_code", "id_token"},
		"AuthorizationCodeGrantRefreshTokenLifespan": {"authorization_code", "refresh_token"}, "ClientCredentialsGrantAccessTokenLifespan": {"client_credentials", "access_token"},
		"ImplicitGrantAccessTokenLifespan": {"implicit", "access_token"}, "ImplicitGrantIDTokenLifespan": {"implicit", "id_token"},
		"JwtBearerGrantAccessTokenLifespan": {"urn:ietf:params:oauth:grant-type:jwt-bearer", "access_token"}, "PasswordGrantAccessTokenLifespan": {"password", "access_token"},
		"PasswordGrantRefreshTokenLifespan": {"password", "refresh_token"}, "RefreshTokenGrantIDTokenLifespan": {"refresh_token", "id_token"},
		"RefreshTokenGrantAccessTokenLifespan": {"refresh_token", "access_token"}, "RefreshTokenGrantRefreshTokenLifespan": {"refresh_token", "refresh_token"},
	}
	grants := []string{"authorization_code", "client_credentials", "implicit", "urn:ietf:params:oauth:grant-type:jwt-bearer", "password", "refresh_token", "urn:ietf:params:oauth:grant-type:device_code"}
	types := []string{"access_token", "refresh_token", "id_token", "authorize_code"}
	fallback := 9999 * time.Second
	t := reflect.TypeOf(fosite.ClientLifespanConfig{})
	for i := 0; i < t.NumField(); i++ {
		name := t.Field(i).Name
		pair, known := pairs[name]
		if !known {
			res.note("unknown-lifespan-field:" + name)
			continue
		}
		l := &fosite.ClientLifespanConfig{}
		d := 77 * time.Second
		reflect.ValueOf(l).Elem().Field(i).Set(reflect.ValueOf(&d))
		cl := &fosite.DefaultClientWithCustomTokenLifespans{DefaultClient: &fosite.DefaultClient{ID: "x"}, TokenLifespans: l}
		for _, g := range grants {
			for _, tt := range types {
				got := fosite.GetEffectiveLifespan(cl, fosite.GrantType(g), fosite.TokenType(tt), fallback)
				want := fallback
				if g == pair[0] && tt == pair[1] {
					want = d
				}
				res.Evals++
				res.distinct(name + "|" + g + "|" + tt)
				if got != want {
					res.violate(Violation{Property: "C07", Fingerprint: fmt.Sprintf("C07/override-table/field=%s/grant=%s/type=%s", name, g, tt),
						What: fmt.Sprintf("with only %s set, the effective lifetime for (%s, %s) is %v, expected %v", name, g, tt, got, want), Engine: "c07table", Case: map[string]string{"field": name}, Expected: want.String(), Observed: got.String()})
				}
			}
		}
	}
	// no override configured / plain client => fallback
	for _, g := range grants {
		for _, tt := range types {
			res.Evals++
			if got := fosite.GetEffectiveLifespan(&fosite.DefaultClient{ID: "x"}, fosite.GrantType(g), fosite.TokenType(tt), fallback); got != fallback {
				res.violate(Violation{Property: "C07", Fingerprint: "C07/override-table/plain-client", What: "a client without overrides does not get the server default", Engine: "c07table", Case: map[string]string{}, Expected: fallback.String(), Observed: got.String()})
			}
		}
	}
}

type c07Job struct {
	Kind, Source string
	Sessions     []string
	Offsets      []int
	Ages         []int
}

func init() {
	registerWorker("c07", func(arg json.RawMessage) (any, error) {
		var j c07Job
		if err := json.Unmarshal(arg, &j); err != nil {
			return nil, err
		}
		res := &WRes{}
		if j.Kind == "table" {
			c07Table(res)
			res.sample("override table: 12 fields x 7 grant types x 4 token types")
			return res, nil
		}
		encs := []string{""}
		if j.Kind == "bearer-assertion" || j.Kind == "client-assertion" || j.Kind == "request-object" {
			encs = []string{"int", "float", "float-frac"}
		}
		for _, off := range j.Offsets {
			for _, pos := range []string{"fresh", "after-history", "split"} {
				for _, age := range j.Ages {
					for _, enc := range encs {
						for _, sess := range j.Sessions {
							c := c07Case{Kind: j.Kind, Source: j.Source, OffsetMS: off, Position: pos, AgeRel: age, ExpEnc: enc, Session: sess}
							n := len(res.Viol)
							c07Run(c, res)
							res.Evals++
							res.distinct(fmt.Sprintf("%+v", c))
							if len(res.Viol) == n {
								res.sample(c)
							}
						}
					}
				}
			}
		}
		return res, nil
	})
	replayFns["c07"] = func(raw json.RawMessage) ([]Violation, error) {
		var c c07Case
		if err := json.Unmarshal(raw, &c); err != nil {
			return nil, err
		}
		res := &WRes{}
		c07Run(c, res)
		return res.Viol, nil
	}
	replayFns["c07table"] = func(raw json.RawMessage) ([]Violation, error) {
		res := &WRes{}
		c07Table(res)
		return res.Viol, nil
	}
	registerCheck("C07", "exploration", 120*time.Second, 20*time.Minute, func(r *Run) {
		var jobs []any
		jobs = append(jobs, c07Job{Kind: "table"})
		offsets, ages := []int{0, 400, 600}, c07AgesRel
		if !r.Quick() {
			offsets, ages = []int{0, 100, 200, 300, 400, 500, 600, 700, 800, 900, 999}, c07AgesDeep
		}
		sources := []string{"default", "configured", "configured-short", "configured-long", "client-override", "session-provided", "rt-unlimited", "rt-unlimited+override", "refresh-override-unlimited", "rt-unlimited+code-override-only"}
		for _, k := range c07Kinds {
			for _, s := range sources {
				if s == "session-provided" && k != "at-implicit" && k != "at-code/abandoned-redeem" {
					continue
				}
				if strings.HasPrefix(s, "rt-unlimited") && k != "rt-code" && k != "rt-password" && k != "rt-refresh" {
					continue
				}
				if strings.HasPrefix(k, "idt-") && s != "default" && s != "client-override" {
					continue
				}
				if (s == "refresh-override-unlimited" || s == "rt-unlimited+code-override-only") && k != "rt-code" && k != "rt-refresh" {
					continue
				}
				sessions := []string{"", "openid"}
				if strings.HasPrefix(k, "jwt-at-") {
					sessions = []string{"", "jwt"}
				}
				jobs = append(jobs, c07Job{Kind: k, Source: s, Sessions: sessions, Offsets: offsets, Ages: ages})
			}
		}
		r.Bounds = map[string]any{"kinds": c07Kinds, "sources": []string{"server default", "configured value (90/500/1000 s)", "configured short (4/6/8 s)", "configured long (1 d/200000 s/90 d)", "per-client override (all 12 fields set to distinct values)", "session-provided access-token expiry at the authorization endpoint (implicit, hybrid)", "unlimited refresh tokens (-1) as server default, alone and under a finite per-client override", "finite server default with a per-client unlimited (-1) refresh-grant override", "unlimited server default with a finite override for the code grant only"}, "ages_relative_to_expiry_s": ages,
			"issue_offsets_ms": offsets, "positions": []string{"fresh", "after an unrelated grant + refresh", "aged in two steps around an unrelated grant + refresh"}, "assertion_exp_encodings": []string{"int", "float", "float with fraction"},
			"session_types": []string{"harness session (OpenID + JWT container)", "openid.DefaultSession", "oauth2.JWTSession"}, "override_table": "12 fields x 7 grant types x 4 token types"}
		r.Rule = "every (kind, lifetime source, issue offset, history position, age, exp encoding, session type) is minted and presented on a fresh provider under a virtual clock; ages 2 s or more past the expiry instant must be refused, ages 2 s or more before an advertised expiry must be honoured; advertised lifetime within 1 s of the effective one; override table exhaustively"
		r.Assumptions = []string{"+-1 s around an expiry instant is don't-care (expiries are rounded to seconds)", "all time reads of ory/fosite go through the overlay clock; third-party libraries never read the clock on these paths (a violation would show as a refusal before expiry)"}
		res := r.Pool.Do("c07", jobs, r.Deadline)
		if !r.MergeJobs(res) {
			r.Exhaustive = false
		}
	})
}
