package main

import (
	"bufio"
	"encoding/json"
	"fmt"
	"io"
	"os"
	"os/exec"
	"runtime"
	"runtime/debug"
	"sync"
	"time"
)

// WorkerFn runs one job inside a worker process.
type WorkerFn func(arg json.RawMessage) (any, error)

var workerFns = map[string]WorkerFn{}

func registerWorker(name string, fn WorkerFn) { workerFns[name] = fn }

type jobMsg struct {
	ID  int             `json:"id"`
	Fn  string          `json:"fn"`
	Arg json.RawMessage `json:"arg"`
}
type resMsg struct {
	ID  int             `json:"id"`
	Res json.RawMessage `json:"res,omitempty"`
	Err string          `json:"err,omitempty"`
}

// workerMain: JSON lines on stdin -> JSON lines on stdout.
func workerMain() {
	in := bufio.NewReaderSize(os.Stdin, 1<<20)
	out := bufio.NewWriter(os.Stdout)
	for {
		line, err := in.ReadBytes('\n')
		if len(line) > 0 {
			var j jobMsg
			if e := json.Unmarshal(line, &j); e != nil {
				fmt.Fprintln(os.Stderr, "worker: bad job:", e)
				os.Exit(3)
			}
			r := runJob(j)
			b, _ := json.Marshal(r)
			out.Write(b)
			out.WriteByte('\n')
			out.Flush()
		}
		if err != nil {
			return
		}
	}
}

func runJob(j jobMsg) (r resMsg) {
	r.ID = j.ID
	defer func() {
		if p := recover(); p != nil {
			r.Err = fmt.Sprintf("panic: %v\n%s", p, debug.Stack())
		}
	}()
	fn := workerFns[j.Fn]
	if fn == nil {
		r.Err = "unknown worker fn " + j.Fn
		return
	}
	res, err := fn(j.Arg)
	if err != nil {
		r.Err = err.Error()
		return
	}
	b, err := json.Marshal(res)
	if err != nil {
		r.Err = "marshal: " + err.Error()
		return
	}
	r.Res = b
	return
}

type worker struct {
	cmd *exec.Cmd
	in  io.WriteCloser
	out *bufio.Reader
}

// Pool is a set of worker subprocesses (each with its own globals: clock, random source).
type Pool struct {
	n       int
	workers []*worker
	inproc  bool
	env     []string
}

func NumWorkers() int {
	n := runtime.NumCPU()
	if v := os.Getenv("VERIF_WORKERS"); v != "" {
		fmt.Sscan(v, &n)
	}
	if n < 1 {
		n = 1
	}
	return n
}

func NewPool(n int, env ...string) *Pool {
	p := &Pool{n: n, env: env}
	if os.Getenv("VERIF_INPROC") != "" {
		p.inproc = true
		p.n = 1
	}
	return p
}

func (p *Pool) spawn() (*worker, error) {
	cmd := exec.Command(os.Args[0], "worker")
	cmd.Env = append(os.Environ(), p.env...)
	cmd.Stderr = os.Stderr
	in, err := cmd.StdinPipe()
	if err != nil {
		return nil, err
	}
	out, err := cmd.StdoutPipe()
	if err != nil {
		return nil, err
	}
	if err := cmd.Start(); err != nil {
		return nil, err
	}
	return &worker{cmd: cmd, in: in, out: bufio.NewReaderSize(out, 1<<20)}, nil
}

func (p *Pool) Close() {
	for _, w := range p.workers {
		if w != nil {
			w.in.Close()
			w.cmd.Wait()
		}
	}
	p.workers = nil
}

// Do runs all jobs; results are in job order. A deadline (zero = none) stops handing out
// jobs; unfinished jobs have Done=false.
type JobResult struct {
	Res  json.RawMessage
	Err  string
	Done bool
}

func (p *Pool) Do(fn string, args []any, deadline time.Time) []JobResult {
	res := make([]JobResult, len(args))
	if p.inproc {
		for i, a := range args {
			if !deadline.IsZero() && time.Now().After(deadline) {
				break
			}
			b, _ := json.Marshal(a)
			r := runJob(jobMsg{ID: i, Fn: fn, Arg: b})
			res[i] = JobResult{Res: r.Res, Err: r.Err, Done: true}
		}
		return res
	}
	for len(p.workers) < p.n {
		p.workers = append(p.workers, nil)
	}
	jobs := make(chan int)
	var wg sync.WaitGroup
	for wi := 0; wi < p.n; wi++ {
		wg.Add(1)
		go func(wi int) {
			defer wg.Done()
			for i := range jobs {
				if p.workers[wi] == nil {
					w, err := p.spawn()
					if err != nil {
						res[i] = JobResult{Err: "spawn: " + err.Error(), Done: true}
						continue
					}
					p.workers[wi] = w
				}
				w := p.workers[wi]
				b, _ := json.Marshal(args[i])
				jb, _ := json.Marshal(jobMsg{ID: i, Fn: fn, Arg: b})
				jb = append(jb, '\n')
				if _, err := w.in.Write(jb); err != nil {
					res[i] = JobResult{Err: "worker write: " + err.Error(), Done: true}
					w.cmd.Process.Kill()
					w.cmd.Wait()
					p.workers[wi] = nil
					continue
				}
				// watchdog: a job that blocks for ever (a real deadlock in the code under test outside the controlled
				// scheduler, e.g. on a leaked lock) must not hang the check
				type rd struct {
					line []byte
					err  error
				}
				ch := make(chan rd, 1)
				go func() {
					l, e := w.out.ReadBytes('\n')
					ch <- rd{l, e}
				}()
				limit := 10 * time.Minute
				if !deadline.IsZero() {
					if d := time.Until(deadline) + 90*time.Second; d < limit {
						limit = d
					}
					if limit < 2*time.Minute {
						limit = 2 * time.Minute
					}
				}
				var line []byte
				var err error
				select {
				case r := <-ch:
					line, err = r.line, r.err
				case <-time.After(limit):
					res[i] = JobResult{Err: fmt.Sprintf("worker hung: no reply to job %s %s within %v (blocked for ever?)", fn, string(b), limit.Round(time.Second)), Done: true}
					w.cmd.Process.Kill()
					w.cmd.Wait()
					p.workers[wi] = nil
					continue
				}
				if err != nil {
					res[i] = JobResult{Err: "worker died: " + err.Error(), Done: true}
					w.cmd.Process.Kill()
					w.cmd.Wait()
					p.workers[wi] = nil
					continue
				}
				var r resMsg
				if err := json.Unmarshal(line, &r); err != nil {
					res[i] = JobResult{Err: "bad worker reply: " + err.Error(), Done: true}
					continue
				}
				res[i] = JobResult{Res: r.Res, Err: r.Err, Done: true}
			}
		}(wi)
	}
	for i := range args {
		if !deadline.IsZero() && time.Now().After(deadline) {
			break
		}
		jobs <- i
	}
	close(jobs)
	wg.Wait()
	return res
}
