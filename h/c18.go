package main

import (
	"context"
	"encoding/json"
	"errors"
	"fmt"
	"net/url"
	"regexp"
	"strings"
	"time"

	"github.com/ory/fosite"
	"github.com/ory/fosite/storage"
)

// C18 — storage failures never yield tokens and never leave a half-applied grant.
// FAULT engine: record the storage-call trace of a clean run of the target request, then re-run
// it with a fault injected at every call index x error kind (and at every ordered pair), or a
// crash before every call, on a plain and on a transactional store; then retry and attack.

type c18Case struct {
	Flow     string `json:"flow"`
	Tx       bool   `json:"transactional_store"`
	Faults   []c18F `json:"faults"`                      // call index (within the target request) + kind
	Crash    int    `json:"crash_before_call,omitempty"` // -1/0 = none; i>0 => crash before call i-1... see code
	HasCrash bool   `json:"has_crash,omitempty"`
}

type c18F struct {
	Call int    `json:"call"`
	Name string `json:"name,omitempty"`
	Kind string `json:"kind"`
}

var c18Kinds = []string{"generic", "not-found", "inactive", "serialization", "ctx-cancelled"}
var c18Flows = []string{"code", "code-oidc", "code-pkce", "code-pkce-noverifier", "refresh", "refresh-oidc", "refresh-reuse", "device", "device-oidc", "authorize-code", "implicit", "hybrid", "client_credentials", "password", "jwt-bearer", "client-assertion", "revocation", "par-push", "par-use", "code-replay"}

const c18Marker = "STORAGEMARKER pq: password authentication failed for user hydra (host=10.42.7.13)"

func c18Err(kind string) error {
	switch kind {
	case "not-found":
		return fosite.ErrNotFound
	case "inactive":
		return fosite.ErrInactiveToken
	case "serialization":
		return fosite.ErrSerializationFailure
	}
	return errors.New(c18Marker)
}

type c18Crash struct{}

var c18Lookup = regexp.MustCompile(`^(Get|IsJWTUsed|ClientAssertionJWTValid|Authenticate)`)

// c18Plan is what a flow gives the engine.
type c18Plan struct {
	target  func() *Obs
	retry   func() *Obs   // the legitimate holder tries again
	attacks []func() *Obs // must be refused whatever happened
	tokens  func() []string
	// for revocation: the tokens that must be dead if success was reported
	revoked           []string
	authorizeEndpoint bool
}

func c18Setup(w *World, flow string) *c18Plan {
	p := &c18Plan{}
	authA := w.AuthFor("A")
	var minted []string
	note := func(o *Obs) *Obs {
		for _, k := range []string{"access_token", "refresh_token"} {
			if v := o.Str(k); v != "" {
				minted = append(minted, v)
			}
			if v := o.Param(k); v != "" {
				minted = append(minted, v)
			}
		}
		return o
	}
	p.tokens = func() []string { return minted }
	authz := func(client, rt, scope string, extra url.Values) *Obs {
		q := url.Values{"client_id": {client}, "redirect_uri": {"https://" + client + ".example/cb"}, "state": {"state-12345678"}, "response_type": {rt}, "scope": {scope}, "nonce": {"nonce-12345678"}}
		for k, v := range extra {
			q[k] = v
		}
		return note(w.Authorize(q, AuthzOpts{}))
	}
	tok := func(f url.Values, a Auth) func() *Obs { return func() *Obs { return note(w.Token(f, a)) } }
	switch flow {
	case "code", "code-oidc", "code-replay":
		scope := "offline a"
		if flow == "code-oidc" {
			scope = "openid offline a"
		}
		code := authz("A", "code", scope, nil).Param("code")
		f := url.Values{"grant_type": {"authorization_code"}, "code": {code}, "redirect_uri": {"https://A.example/cb"}}
		if flow == "code-replay" {
			tok(f, authA)()
		}
		p.target = tok(f, authA)
		p.retry = tok(f, authA)
		p.attacks = []func() *Obs{tok(f, w.AuthFor("B"))}
		if flow == "code-replay" {
			p.attacks = append(p.attacks, tok(f, authA))
		}
	case "code-pkce-noverifier":
		// the target itself is an attack: a challenge-bound code presented without verifier must be refused
		// whatever the store does meanwhile
		code := authz("P", "code", "offline a", url.Values{"code_challenge": {s256(pkceV0)}, "code_challenge_method": {"S256"}}).Param("code")
		f := url.Values{"grant_type": {"authorization_code"}, "code": {code}, "redirect_uri": {"https://P.example/cb"}}
		p.target = tok(f, w.AuthFor("P"))
		p.attacks = []func() *Obs{tok(f, w.AuthFor("P"))}
	case "code-pkce":
		code := authz("P", "code", "offline a", url.Values{"code_challenge": {s256(pkceV0)}, "code_challenge_method": {"S256"}}).Param("code")
		f := url.Values{"grant_type": {"authorization_code"}, "code": {code}, "redirect_uri": {"https://P.example/cb"}, "code_verifier": {pkceV0}}
		nov := cloneValues(f)
		nov.Del("code_verifier")
		wrong := cloneValues(f)
		wrong.Set("code_verifier", strings.Repeat("w", 43))
		p.target = tok(f, w.AuthFor("P"))
		p.retry = tok(f, w.AuthFor("P"))
		p.attacks = []func() *Obs{tok(nov, w.AuthFor("P")), tok(wrong, w.AuthFor("P")), tok(nov, w.AuthFor("p"))}
	case "refresh", "refresh-oidc", "refresh-reuse":
		var first *Obs
		if flow == "refresh-oidc" {
			code := authz("A", "code", "openid offline a", nil).Param("code")
			first = tok(url.Values{"grant_type": {"authorization_code"}, "code": {code}, "redirect_uri": {"https://A.example/cb"}}, authA)()
		} else {
			first = tok(url.Values{"grant_type": {"password"}, "username": {"peter"}, "password": {"pw-peter"}, "scope": {"offline a"}}, authA)()
		}
		rt1 := first.Str("refresh_token")
		f := url.Values{"grant_type": {"refresh_token"}, "refresh_token": {rt1}}
		if flow == "refresh-reuse" {
			tok(f, authA)() // rt1 is now used; presenting it again triggers reuse handling
		}
		p.target = tok(f, authA)
		p.retry = tok(f, authA)
		p.attacks = []func() *Obs{tok(f, w.AuthFor("B"))}
		if flow == "refresh-reuse" {
			p.attacks = append(p.attacks, tok(f, authA))
		}
	case "device", "device-oidc":
		scope := "offline a"
		if flow == "device-oidc" {
			scope = "openid offline a"
		}
		do := w.DeviceAuth(url.Values{"client_id": {"A"}, "scope": {scope}}, authA)
		w.AcceptUserCode(do.Str("user_code"), true)
		if flow == "device-oidc" {
			sig, _ := w.Dev.UserCodeSignature(nil, do.Str("user_code"))
			if req, ok := w.Mem.DeviceAuths[sig]; ok {
				_, _, dsig := c06Split2(do.Str("device_code"))
				w.Mem.CreateOpenIDConnectSession(nil, dsig, req)
			}
		}
		f := url.Values{"grant_type": {"urn:ietf:params:oauth:grant-type:device_code"}, "device_code": {do.Str("device_code")}}
		p.target = tok(f, authA)
		p.retry = tok(f, authA)
		p.attacks = []func() *Obs{tok(f, w.AuthFor("B"))}
	case "authorize-code":
		p.authorizeEndpoint = true
		p.target = func() *Obs {
			return authz("P", "code", "openid offline a", url.Values{"code_challenge": {s256(pkceV0)}, "code_challenge_method": {"S256"}})
		}
	case "implicit":
		p.authorizeEndpoint = true
		p.target = func() *Obs { return authz("A", "id_token token", "openid a", nil) }
	case "hybrid":
		p.authorizeEndpoint = true
		p.target = func() *Obs { return authz("A", "code id_token token", "openid offline a", nil) }
	case "client_credentials":
		p.target = tok(url.Values{"grant_type": {"client_credentials"}, "scope": {"a"}}, authA)
		p.retry = tok(url.Values{"grant_type": {"client_credentials"}, "scope": {"a"}}, authA)
	case "password":
		f := url.Values{"grant_type": {"password"}, "username": {"peter"}, "password": {"pw-peter"}, "scope": {"offline a"}}
		p.target = tok(f, authA)
		p.retry = tok(f, authA)
		bad := cloneValues(f)
		bad.Set("password", "wrong")
		p.attacks = []func() *Obs{tok(bad, authA)}
	case "jwt-bearer":
		k := pubJWK(ecKey("ec256a"), "bk-1", "ES256")
		w.Mem.IssuerPublicKeys["issuer-1"] = storage.IssuerPublicKeys{Issuer: "issuer-1", KeysBySub: map[string]storage.SubjectPublicKeys{"subject-1": {Subject: "subject-1", Keys: map[string]storage.PublicKeyScopes{"bk-1": {Key: &k, Scopes: []string{"a"}}}}}}
		now := w.Now()
		as := signJWT(ecKey("ec256a"), "ES256", "bk-1", map[string]any{"iss": "issuer-1", "sub": "subject-1", "aud": []string{TokenURL}, "exp": now.Add(5 * time.Minute).Unix(), "iat": now.Unix(), "jti": "jti-c18"}, nil)
		f := url.Values{"grant_type": {"urn:ietf:params:oauth:grant-type:jwt-bearer"}, "assertion": {as}, "scope": {"a"}}
		p.target = tok(f, authA)
	case "client-assertion":
		jc := &fosite.DefaultOpenIDConnectClient{DefaultClient: w.AddClient("J", "", false), TokenEndpointAuthMethod: "private_key_jwt", TokenEndpointAuthSigningAlgorithm: "ES256", JSONWebKeys: jwks(pubJWK(ecKey("ec256b"), "ck-1", "ES256"))}
		w.Mem.Clients["J"] = jc
		as := c10Assertion(w, "J", "ec256b", "jti-c18-client")
		a := Auth{Mode: "omit", Extra: url.Values{"client_assertion_type": {"urn:ietf:params:oauth:client-assertion-type:jwt-bearer"}, "client_assertion": {as}}}
		p.target = tok(url.Values{"grant_type": {"client_credentials"}, "scope": {"a"}}, a)
	case "revocation":
		first := tok(url.Values{"grant_type": {"password"}, "username": {"peter"}, "password": {"pw-peter"}, "scope": {"offline a"}}, authA)()
		at, rt := first.Str("access_token"), first.Str("refresh_token")
		p.revoked = []string{at, rt}
		p.target = func() *Obs { return w.Revoke(rt, "refresh_token", authA) }
		p.retry = func() *Obs { return w.Revoke(rt, "refresh_token", authA) }
	case "par-push":
		p.authorizeEndpoint = true
		p.target = func() *Obs {
			return w.PAR(url.Values{"client_id": {"A"}, "redirect_uri": {"https://A.example/cb"}, "state": {"state-12345678"}, "response_type": {"code"}, "scope": {"a"}}, authA)
		}
	case "par-use":
		p.authorizeEndpoint = true
		ru := w.PAR(url.Values{"client_id": {"A"}, "redirect_uri": {"https://A.example/cb"}, "state": {"state-12345678"}, "response_type": {"code"}, "scope": {"a"}}, authA).Str("request_uri")
		p.target = func() *Obs {
			return note(w.Authorize(url.Values{"client_id": {"A"}, "request_uri": {ru}}, AuthzOpts{}))
		}
		p.attacks = []func() *Obs{func() *Obs { return w.Authorize(url.Values{"client_id": {"B"}, "request_uri": {ru}}, AuthzOpts{}) }}
	}
	return p
}

func delivered(o *Obs) bool {
	if o == nil {
		return false
	}
	return issued(o) || o.Param("access_token") != "" || o.Param("id_token") != "" || o.Param("code") != "" || o.Str("request_uri") != "" || o.Str("device_code") != ""
}

// coreDump: code and token records without session expiries (lifetimes are C07's subject)
var expField = regexp.MustCompile(` exp\[[a-z_]+\]=-?\d+`)

func c18CoreDump(w *World) string {
	var keep []string
	for _, l := range strings.Split(w.Store.Dump(w.Names, Epoch), "\n") {
		tbl := l
		if i := strings.Index(l, "|"); i >= 0 {
			tbl = l[:i]
		}
		switch tbl {
		case "code", "at", "rt", "atid", "rtid", "dev", "devinv":
			keep = append(keep, expField.ReplaceAllString(l, ""))
		}
	}
	return strings.Join(keep, "\n")
}

// c18Trace runs the target cleanly and returns the storage calls it makes.
func c18Trace(flow string, tx bool) []string {
	w := NewWorld(Profile{Tx: tx})
	p := c18Setup(w, flow)
	start := len(w.Store.Log)
	p.target()
	var names []string
	for _, c := range w.Store.Log[start:] {
		names = append(names, c.Name)
	}
	return names
}

func c18Run(c c18Case, res *WRes) {
	w := NewWorld(Profile{Tx: c.Tx})
	p := c18Setup(w, c.Flow)
	viol := func(fp, what, exp string, obs any) {
		res.violate(Violation{Property: "C18", Fingerprint: fp, What: what, Engine: "c18", Case: c, Expected: exp, Observed: obs})
	}
	before := c18CoreDump(w)
	idx := -1
	faultNames := map[int]string{}
	inTxAtFault := false
	w.Store.Before = func(call *Call) error {
		idx++
		if c.HasCrash && idx == c.Crash {
			panic(c18Crash{})
		}
		for _, f := range c.Faults {
			if f.Call == idx {
				faultNames[idx] = call.Name
				if w.Tx != nil && w.Tx.depth > 0 {
					inTxAtFault = true
				}
				if call.Name == "BeginTX" || call.Name == "Commit" {
					inTxAtFault = true
				}
				if f.Kind == "ctx-cancelled" {
					// the request's context is cancelled (client gone / deadline) and the store call fails with that error
					w.CancelRequest()
					return context.Canceled
				}
				return c18Err(f.Kind)
			}
		}
		return nil
	}
	txStart := 0
	if w.Tx != nil {
		txStart = len(w.Tx.TxTrace)
	}
	var o *Obs
	crashed := false
	panicked := ""
	func() {
		defer func() {
			if r := recover(); r != nil {
				if _, ok := r.(c18Crash); ok {
					crashed = true
					return
				}
				panicked = fmt.Sprint(r)
			}
		}()
		o = p.target()
	}()
	w.Store.Before = nil
	res.Trans++
	if crashed {
		// the process died: an open transaction is never committed
		if w.Tx != nil && w.Tx.depth > 0 {
			if w.Tx.snap != nil {
				w.Tx.snap.restore(w.Store)
				w.Tx.snap = nil
			}
			w.Tx.depth = 0
			inTxAtFault = true
		}
	}
	if len(faultNames) == 0 && !crashed {
		res.class("fault-not-reached")
		return
	}
	var fdesc []string
	lookupSentinel := false
	for _, f := range c.Faults {
		if n, ok := faultNames[f.Call]; ok {
			fdesc = append(fdesc, n+":"+f.Kind)
			if (c18Lookup.MatchString(n) || strings.HasPrefix(n, "Revoke")) && (f.Kind == "not-found" || f.Kind == "inactive") {
				// Revoke*: the storage contract lets a store answer not-found / inactive for "nothing left to revoke"
				lookupSentinel = true
			}
		}
	}
	if crashed {
		fdesc = append(fdesc, fmt.Sprintf("crash-before-call-%d", c.Crash))
	}
	site := strings.Join(fdesc, "+")
	siteNoIdx := site
	if panicked != "" {
		// whatever the store answered (also "inactive" / "not found" without a companion request, which the storage
		// interfaces do not forbid): the request has to be refused, not to panic
		viol(fmt.Sprintf("C18/panic-on-storage-failure/%s/%s", c.Flow, siteNoIdx), fmt.Sprintf("flow %s: storage failure %s made the request panic: %s", c.Flow, site, panicked), "clean refusal", panicked)
		if w.Tx != nil && w.Tx.depth > 0 {
			if w.Tx.snap != nil {
				w.Tx.snap.restore(w.Store)
				w.Tx.snap = nil
			}
			w.Tx.depth = 0
		}
		return
	}
	res.class(fmt.Sprintf("%s:%s:%s", c.Flow, map[bool]string{true: "delivered", false: "refused"}[delivered(o)], map[bool]string{true: "crash", false: "fault"}[crashed]))
	res.distinct(fmt.Sprintf("%s|%v|%s", c.Flow, c.Tx, site))
	// (a) no tokens in the response
	if !crashed && delivered(o) {
		if lookupSentinel {
			res.DontCare++ // the store "legitimately" answered not-found / inactive at a lookup: that is another store state, not a failure
		} else if c.Flow == "revocation" {
			// success reported: then the revocation must be effective
		} else {
			viol(fmt.Sprintf("C18/delivered-despite-storage-failure/%s/%s/tx=%v", c.Flow, siteNoIdx, c.Tx), fmt.Sprintf("flow %s: storage failure %s, yet the response carries tokens / a code", c.Flow, site), "refusal without tokens", o.JSON)
			return
		}
	}
	if c.Flow == "revocation" && !crashed && o != nil && o.RevokeClass() == "" && !lookupSentinel {
		for _, t := range p.revoked {
			if act, _ := w.Active(t); act {
				viol("C18/revocation-reported-success-but-token-active/"+siteNoIdx, "a storage failure occurred during revocation, success was reported, but a token is still active", "error or effective revocation", site)
			}
		}
	}
	// serialization conflicts on the refresh path are answered as retryable
	if !crashed && strings.HasPrefix(c.Flow, "refresh") && o != nil && len(c.Faults) == 1 && c.Faults[0].Kind == "serialization" && !delivered(o) {
		n := faultNames[c.Faults[0].Call]
		if !c18Lookup.MatchString(n) && o.Err == "server_error" && n != "BeginTX" && n != "Rollback" {
			viol("C18/serialization-conflict-not-retryable/"+c.Flow+"/"+n, "a serialization conflict during refresh was answered with server_error instead of a retryable error", "invalid_request (retry)", o.JSON)
		}
	}
	// (c) transaction discipline
	if w.Tx != nil && !crashed {
		tr := w.Tx.TxTrace[txStart:]
		ts := strings.Join(tr, " ")
		begins := 0
		ends := 0
		for _, e := range tr {
			switch e {
			case "begin":
				begins++
			case "commit", "rollback":
				ends++
			}
		}
		matched := begins == ends || (strings.Contains(ts, "commit!") && begins == ends) || (strings.Contains(ts, "rollback!") && begins == ends+1)
		if strings.Contains(ts, "commit! rollback!") {
			matched = true
		}
		if !matched {
			viol(fmt.Sprintf("C18/transaction-not-closed/%s/%s", c.Flow, siteNoIdx), fmt.Sprintf("flow %s, failure %s: transaction trace %q — begin is not matched by exactly one commit or rollback", c.Flow, site, ts), "begin ... (commit | rollback)", ts)
		}
		// no commit after a failed write inside the transaction
		failedWrite := false
		for _, f := range c.Faults {
			n := faultNames[f.Call]
			sentinel := strings.HasPrefix(n, "Revoke") && (f.Kind == "not-found" || f.Kind == "inactive")
			if n != "" && !c18Lookup.MatchString(n) && !sentinel && n != "BeginTX" && n != "Commit" && n != "Rollback" && inTxAtFault {
				failedWrite = true
			}
		}
		if failedWrite && strings.Contains(ts, "begin") && strings.HasSuffix(ts, "commit") && strings.Count(ts, "begin") == 1 {
			viol(fmt.Sprintf("C18/commit-after-failed-write/%s/%s", c.Flow, siteNoIdx), fmt.Sprintf("flow %s: a write inside the transaction failed (%s) and the transaction was still committed (%q)", c.Flow, site, ts), "rollback", ts)
		}
		if w.Tx.depth > 0 && !strings.Contains(ts, "rollback!") {
			// leave no transaction open for the follow-up requests
			if w.Tx.snap != nil {
				w.Tx.snap.restore(w.Store)
				w.Tx.snap = nil
			}
			w.Tx.depth = 0
		}
	}
	// (d) a failure inside the issuing transaction leaves every code / token record as it was
	rolledBack := w.Tx != nil && inTxAtFault && !lookupSentinel && !strings.Contains(strings.Join(w.Tx.TxTrace[txStart:], " "), "rollback!")
	if rolledBack && !(len(faultNames) == 1 && hasName(faultNames, "Commit") && false) {
		after := c18CoreDump(w)
		if after != before && !delivered(o) {
			viol(fmt.Sprintf("C18/records-changed-after-rolled-back-failure/%s/%s", c.Flow, siteNoIdx), fmt.Sprintf("flow %s: failure %s inside the transaction, but code/token records differ from before the request", c.Flow, site), "identical records", diffLines(before, after))
		}
		// the credential is still usable by its legitimate holder
		if p.retry != nil && c.Flow != "refresh-reuse" && c.Flow != "code-replay" && !delivered(o) {
			ro := p.retry()
			if !delivered(ro) && !(c.Flow == "revocation" && ro.RevokeClass() == "") {
				viol(fmt.Sprintf("C18/retry-refused-after-rolled-back-failure/%s/%s", c.Flow, siteNoIdx), fmt.Sprintf("flow %s: failure %s inside the transaction was rolled back, but the legitimate holder's retry is refused: %s", c.Flow, site, ro.GoErr), "retry succeeds", ro.JSON)
			}
		}
	}
	// attackers are refused whatever happened
	for i, a := range p.attacks {
		ao := a()
		if delivered(ao) {
			viol(fmt.Sprintf("C18/attack-succeeded-after-failure/%s/attack=%d/%s", c.Flow, i, siteNoIdx), fmt.Sprintf("flow %s: after storage failure %s an attacker variant (#%d) obtained tokens", c.Flow, site, i), "refusal", ao.JSON)
		}
	}
}

func hasName(m map[int]string, n string) bool {
	for _, v := range m {
		if v == n {
			return true
		}
	}
	return false
}

func diffLines(a, b string) []string {
	am := map[string]bool{}
	for _, l := range strings.Split(a, "\n") {
		am[l] = true
	}
	var out []string
	for _, l := range strings.Split(b, "\n") {
		if !am[l] {
			out = append(out, "+ "+l)
		}
		delete(am, l)
	}
	for l := range am {
		out = append(out, "- "+l)
	}
	if len(out) > 8 {
		out = out[:8]
	}
	return out
}

type c18Job struct {
	Flow  string
	Tx    bool
	Pairs bool
	Deep  bool
}

func init() {
	registerWorker("c18", func(arg json.RawMessage) (any, error) {
		var j c18Job
		if err := json.Unmarshal(arg, &j); err != nil {
			return nil, err
		}
		res := &WRes{}
		trace := c18Trace(j.Flow, j.Tx)
		res.note(fmt.Sprintf("trace:%s:tx=%v:%d-calls", j.Flow, j.Tx, len(trace)))
		run := func(c c18Case) {
			n := len(res.Viol)
			c18Run(c, res)
			res.Evals++
			if len(res.Viol) == n {
				res.sample(map[string]any{"case": c, "clean_trace": trace})
			}
		}
		for i := range trace {
			for _, k := range c18Kinds {
				run(c18Case{Flow: j.Flow, Tx: j.Tx, Faults: []c18F{{Call: i, Name: trace[i], Kind: k}}})
			}
			run(c18Case{Flow: j.Flow, Tx: j.Tx, HasCrash: true, Crash: i})
		}
		run(c18Case{Flow: j.Flow, Tx: j.Tx, HasCrash: true, Crash: len(trace)})
		if j.Pairs {
			// second fault: any later call of the (now different) faulted run; indices beyond its end are simply not reached
			k1s := []string{"generic", "serialization"}
			if j.Deep {
				k1s = c18Kinds
			}
			span := len(trace) + 4
			for i := range trace {
				for d := 1; i+d <= span; d++ {
					for _, k1 := range k1s {
						for _, k2 := range c18Kinds {
							run(c18Case{Flow: j.Flow, Tx: j.Tx, Faults: []c18F{{Call: i, Name: trace[i], Kind: k1}, {Call: i + d, Kind: k2}}})
						}
					}
					run(c18Case{Flow: j.Flow, Tx: j.Tx, Faults: []c18F{{Call: i, Name: trace[i], Kind: "generic"}}, HasCrash: true, Crash: i + d})
				}
			}
			if j.Deep {
				// triples of generic failures
				for i := range trace {
					for d1 := 1; i+d1 <= span; d1++ {
						for d2 := 1; i+d1+d2 <= span; d2++ {
							run(c18Case{Flow: j.Flow, Tx: j.Tx, Faults: []c18F{{Call: i, Name: trace[i], Kind: "generic"}, {Call: i + d1, Kind: "generic"}, {Call: i + d1 + d2, Kind: "generic"}}})
						}
					}
				}
			}
		}
		return res, nil
	})
	replayFns["c18"] = func(raw json.RawMessage) ([]Violation, error) {
		var c c18Case
		if err := json.Unmarshal(raw, &c); err != nil {
			return nil, err
		}
		res := &WRes{}
		c18Run(c, res)
		return res.Viol, nil
	}
	registerCheck("C18", "fault_enumeration", 150*time.Second, 25*time.Minute, func(r *Run) {
		var jobs []any
		for _, f := range c18Flows {
			for _, tx := range []bool{false, true} {
				jobs = append(jobs, c18Job{Flow: f, Tx: tx, Pairs: true, Deep: !r.Quick()})
			}
		}
		r.Bounds = map[string]any{"flows": c18Flows, "stores": []string{"plain (non-transactional)", "transactional with real rollback (snapshot/restore of all tables)"}, "error_kinds": c18Kinds,
			"single_faults": "every storage call index of the target request (incl. BeginTX / Commit / Rollback) x 5 error kinds (generic, not-found, inactive, serialization conflict, cancelled request context)", "crash_points": "before every storage call and after the last one", "fault_pairs": "first fault {generic, serialization} (all 4 kinds in thorough) at every index x second fault of every kind at every later index; fault followed by a crash at every later point", "fault_triples": "thorough: three generic failures at all increasing index triples"}
		r.Rule = "for each flow the storage-call trace of a clean run is recorded; every single fault, every crash point and every listed pair is injected into the real request on a fresh provider, followed by a legitimate retry and attacker variants; distinct = distinct (flow, store, fault site/kind)"
		r.Assumptions = []string{"not-found / inactive answers injected at lookup calls are indistinguishable from another store state (don't-care)", "record equality after rollback ignores session expiry fields (C07)", "a crash is simulated by unwinding the request at the call boundary; an open transaction is then rolled back as a database would"}
		res := r.Pool.Do("c18", jobs, r.Deadline)
		if !r.MergeJobs(res) {
			r.Exhaustive = false
		}
	})
}
