package main

import (
	"fmt"
	"reflect"
	"runtime"
	"sort"
	"strings"
	"time"
	"unsafe"

	"github.com/ory/fosite/verifhook"
	"github.com/ory/fosite/verifhook/vsync"
)

// Stateless schedule exploration of the real code under a cooperative scheduler.
//
// Exactly one logical thread runs at a time. Scheduling points: every ProxyStore call, every
// read of the random source and (at lock granularity) every lock acquisition of the vsync
// shim. Lock state lives here, so "enabled" is computed, never discovered by blocking. A
// vector-clock happens-before detector consumes lock edges and the field-access
// notifications inserted by the overlay; scheduler hand-offs are NOT happens-before edges.

type lockState struct {
	writer  int // thread id, -1 none
	readers map[int]int
	relVC   []int // last write-release clock
	readVC  []int // join of reader releases
}

type schedThread struct {
	id      int
	resume  chan struct{}
	done    bool
	pending *lockReq // waiting for a lock
	vc      []int
	started bool
}

type lockReq struct {
	lock unsafe.Pointer
	rw   bool
	op   int
}

type schedPoint struct {
	Enabled        []int  // thread ids in canonical order (running thread first if enabled)
	Chosen         int    // index into Enabled
	RunningEnabled bool   // the previously running thread is Enabled[0]
	Kind           string // what the chosen thread is about to do
}

type accessRec struct {
	// obj keeps the instrumented object alive until the end of the execution: the shadow state is keyed by
	// address, and an address reused by the allocator for another object would inherit a stale access record
	// (a false, GC-timing-dependent race report)
	obj        any
	wTid, wClk int
	wPC        uintptr
	reads      [4]int // clock of the last read per thread (0 = none); at most 4 threads
	readPC     [4]uintptr
}

type accessKey struct {
	ptr   uintptr
	field string
}

type Race struct {
	Field string
	A, B  string // function names
	Kind  string // write-write | read-write
}

// Key names the racing call sites: owner type of the field + the two functions (the field names are in the
// description; several fields written by the same pair of functions are one defect).
func (r Race) Key() string {
	a, b := r.A, r.B
	if a > b {
		a, b = b, a
	}
	owner := r.Field
	if i := strings.Index(owner, "."); i > 0 {
		owner = owner[:i]
	}
	return owner + "|" + a + "|" + b
}

type Exec struct {
	Points   []schedPoint
	Choices  []int
	Deadlock bool
	DeadInfo string
	Panic    string
	Races    []Race
	Diverged bool
	Steps    int
}

type Sched struct {
	LockPoints bool // lock acquisitions are decision points (lock granularity)
	threads    []*schedThread
	cur        int
	events     chan schedEvent
	locks      map[unsafe.Pointer]*lockState
	access     map[accessKey]*accessRec
	races      map[string]Race
	choices    []int
	exec       *Exec
	active     bool
	nextKind   []string
}

type schedEvent struct {
	tid   int
	kind  string // yield | done | panic
	msg   string
	label string
}

const schedHorizon = 20000

func (s *Sched) lock(p unsafe.Pointer) *lockState {
	l := s.locks[p]
	if l == nil {
		l = &lockState{writer: -1, readers: map[int]int{}}
		s.locks[p] = l
	}
	return l
}

func (s *Sched) grantable(t *schedThread, r *lockReq) bool {
	l := s.lock(r.lock)
	switch r.op {
	case vsync.OpLock:
		return l.writer == -1 && len(l.readers) == 0
	case vsync.OpRLock:
		if l.writer != -1 {
			return false
		}
		// writer preference: a writer that is already waiting blocks new readers
		for _, o := range s.threads {
			if o != t && o.pending != nil && o.pending.lock == r.lock && o.pending.op == vsync.OpLock && len(l.readers) > 0 {
				return false
			}
		}
		return true
	}
	return true
}

func joinVC(a, b []int) {
	for i := range a {
		if i < len(b) && b[i] > a[i] {
			a[i] = b[i]
		}
	}
}

func (s *Sched) acquire(t *schedThread, r *lockReq) {
	l := s.lock(r.lock)
	if l.relVC != nil {
		joinVC(t.vc, l.relVC)
	}
	if r.op == vsync.OpLock {
		l.writer = t.id
		if l.readVC != nil {
			joinVC(t.vc, l.readVC)
		}
	} else {
		l.readers[t.id]++
	}
}

func (s *Sched) release(t *schedThread, p unsafe.Pointer, op int) {
	l := s.lock(p)
	n := len(s.threads)
	if op == vsync.OpUnlock {
		l.writer = -1
		l.relVC = append([]int(nil), t.vc...)
	} else {
		l.readers[t.id]--
		if l.readers[t.id] <= 0 {
			delete(l.readers, t.id)
		}
		if l.readVC == nil {
			l.readVC = make([]int, n)
		}
		joinVC(l.readVC, t.vc)
	}
	t.vc[t.id]++
}

// yield parks the calling thread and hands control to the scheduler loop.
func (s *Sched) yield(t *schedThread, label string) {
	s.events <- schedEvent{tid: t.id, kind: "yield", label: label}
	<-t.resume
}

// Point is a plain scheduling point (storage call, random read).
func (s *Sched) Point(label string) {
	if !s.active {
		return
	}
	t := s.threads[s.cur]
	s.yield(t, label)
}

func (s *Sched) lockHook(p unsafe.Pointer, rw bool, op int) {
	if !s.active {
		return
	}
	t := s.threads[s.cur]
	switch op {
	case vsync.OpUnlock, vsync.OpRUnlock:
		s.release(t, p, op)
		return
	}
	r := &lockReq{lock: p, rw: rw, op: op}
	if !s.LockPoints && s.grantable(t, r) {
		s.acquire(t, r)
		return
	}
	t.pending = r
	s.yield(t, "lock")
	// resumed: the scheduler granted the lock
}

func callerPC() uintptr {
	var pcs [1]uintptr
	// 0 Callers, 1 callerPC, 2 accessHook, 3 verifhook.Access, 4 the instrumented method
	if runtime.Callers(4, pcs[:]) == 0 {
		return 0
	}
	return pcs[0]
}

func pcFn(pc uintptr) string {
	if pc == 0 {
		return "?"
	}
	f, _ := runtime.CallersFrames([]uintptr{pc}).Next()
	name := f.Function
	if i := strings.LastIndex(name, "/"); i >= 0 {
		name = name[i+1:]
	}
	return name
}

func (s *Sched) accessHook(obj any, field string, write bool) {
	if !s.active {
		return
	}
	t := s.threads[s.cur]
	rv := reflect.ValueOf(obj)
	switch rv.Kind() {
	case reflect.Ptr, reflect.Map, reflect.Slice, reflect.Chan, reflect.Func, reflect.UnsafePointer:
	default:
		return // a value copy is private to its goroutine
	}
	if rv.Pointer() == 0 {
		return // a nil map / nil pointer is not an object two goroutines can share
	}
	key := accessKey{rv.Pointer(), field}
	a := s.access[key]
	if a == nil {
		a = &accessRec{wTid: -1, obj: obj}
		s.access[key] = a
	}
	pc := callerPC()
	report := func(kind string, other uintptr) {
		r := Race{Field: field, A: pcFn(pc), B: pcFn(other), Kind: kind}
		if old, ok := s.races[r.Key()]; ok {
			if !strings.Contains(old.Field, field) {
				old.Field += "," + field
				s.races[r.Key()] = old
			}
			return
		}
		s.races[r.Key()] = r
	}
	if a.wTid >= 0 && a.wTid != t.id && a.wClk > t.vc[a.wTid] {
		if write {
			report("write-write", a.wPC)
		} else {
			report("read-write", a.wPC)
		}
	}
	if write {
		for rt := 0; rt < len(s.threads) && rt < 4; rt++ {
			if rc := a.reads[rt]; rc != 0 && rt != t.id && rc > t.vc[rt] {
				report("read-write", a.readPC[rt])
			}
		}
		a.wTid, a.wClk, a.wPC = t.id, t.vc[t.id], pc
		a.reads, a.readPC = [4]int{}, [4]uintptr{}
	} else if t.id < 4 {
		a.reads[t.id] = t.vc[t.id]
		a.readPC[t.id] = pc
	}
}

// Run executes the bodies under the choice prefix (then default choice 0 everywhere).
func (s *Sched) Run(bodies []func(), prefix []int) *Exec {
	n := len(bodies)
	s.threads = nil
	s.events = make(chan schedEvent)
	s.locks = map[unsafe.Pointer]*lockState{}
	s.access = map[accessKey]*accessRec{}
	s.races = map[string]Race{}
	s.exec = &Exec{}
	for i := 0; i < n; i++ {
		vc := make([]int, n)
		vc[i] = 1
		s.threads = append(s.threads, &schedThread{id: i, resume: make(chan struct{}), vc: vc})
	}
	vsync.Hook = s.lockHook
	verifhook.AccessFn = s.accessHook
	s.active = true
	defer func() {
		s.active = false
		vsync.Hook = nil
		verifhook.AccessFn = nil
	}()
	for i, b := range bodies {
		t := s.threads[i]
		body := b
		go func() {
			<-t.resume
			defer func() {
				if p := recover(); p != nil {
					buf := make([]byte, 4096)
					buf = buf[:runtime.Stack(buf, false)]
					s.events <- schedEvent{tid: t.id, kind: "panic", msg: fmt.Sprintf("%v\n%s", p, buf)}
					return
				}
				s.events <- schedEvent{tid: t.id, kind: "done"}
			}()
			body()
		}()
	}
	running := -1
	labels := make([]string, n)
	for i := range labels {
		labels[i] = "start"
	}
	for step := 0; ; step++ {
		if step > schedHorizon {
			s.exec.Deadlock = true
			s.exec.DeadInfo = "step horizon reached (non-termination)"
			break
		}
		var enabled []int
		allDone := true
		for _, t := range s.threads {
			if t.done {
				continue
			}
			allDone = false
			if t.pending != nil && !s.grantable(t, t.pending) {
				continue
			}
			enabled = append(enabled, t.id)
		}
		if allDone {
			break
		}
		if len(enabled) == 0 {
			s.exec.Deadlock = true
			var w []string
			for _, t := range s.threads {
				if !t.done {
					w = append(w, fmt.Sprintf("thread %d waits for a lock", t.id))
				}
			}
			s.exec.DeadInfo = strings.Join(w, "; ")
			break
		}
		// canonical order: running thread first
		sort.Ints(enabled)
		runEnabled := false
		for i, e := range enabled {
			if e == running {
				enabled = append([]int{e}, append(append([]int(nil), enabled[:i]...), enabled[i+1:]...)...)
				runEnabled = true
				break
			}
		}
		choice := 0
		if len(s.exec.Points) < len(prefix) {
			choice = prefix[len(s.exec.Points)]
			if choice >= len(enabled) {
				s.exec.Diverged = true
				break
			}
		}
		tid := enabled[choice]
		s.exec.Points = append(s.exec.Points, schedPoint{Enabled: enabled, Chosen: choice, RunningEnabled: runEnabled, Kind: labels[tid]})
		s.exec.Choices = append(s.exec.Choices, choice)
		t := s.threads[tid]
		if t.pending != nil {
			s.acquire(t, t.pending)
			t.pending = nil
		}
		s.cur = tid
		running = tid
		t.resume <- struct{}{}
		ev := <-s.events
		switch ev.kind {
		case "done":
			s.threads[ev.tid].done = true
		case "panic":
			s.exec.Panic = ev.msg
			s.threads[ev.tid].done = true
		case "yield":
			labels[ev.tid] = ev.label
		}
		if s.exec.Panic != "" {
			break
		}
		s.exec.Steps++
	}
	if !s.exec.Deadlock && s.exec.Panic == "" && !s.exec.Diverged {
		// every thread has finished: a lock that is still held was leaked, and the next operation that needs it
		// (the judge's own introspection calls included) would block for ever
		for _, ls := range s.locks {
			held := ""
			if ls.writer >= 0 {
				held = fmt.Sprintf("write-locked by thread %d", ls.writer)
			}
			for tid, n := range ls.readers {
				if n > 0 {
					held = fmt.Sprintf("read-locked by thread %d", tid)
				}
			}
			if held != "" {
				s.exec.Deadlock = true
				s.exec.DeadInfo = "all requests returned but a lock is still " + held + " (leaked): every later operation that needs it blocks for ever"
				break
			}
		}
	}
	for _, r := range s.races {
		s.exec.Races = append(s.exec.Races, r)
	}
	sort.Slice(s.exec.Races, func(i, j int) bool { return s.exec.Races[i].Key() < s.exec.Races[j].Key() })
	return s.exec
}

// Explore: depth-first over choice sequences with iterative preemption bounding.
// visit is called once per complete execution; it returns false to stop early.
type Explorer struct {
	Bound     int // max preemptions (-1 = unbounded)
	MaxExecs  int
	MaxWall   time.Duration // per-job wall budget: a cap like MaxExecs (reported, never an error)
	started   time.Time
	Execs     int
	Capped    bool
	MaxPoints int
	run       func(prefix []int) *Exec
	visit     func(x *Exec)
}

func (e *Explorer) explore(prefix []int) {
	if e.MaxExecs > 0 && e.Execs >= e.MaxExecs {
		e.Capped = true
		return
	}
	if e.MaxWall > 0 {
		if e.started.IsZero() {
			e.started = time.Now()
		} else if time.Since(e.started) > e.MaxWall {
			e.Capped = true
			return
		}
	}
	x := e.run(prefix)
	e.Execs++
	if len(x.Points) > e.MaxPoints {
		e.MaxPoints = len(x.Points)
	}
	e.visit(x)
	if x.Diverged {
		return
	}
	// preemptions used before point i
	pre := make([]int, len(x.Points)+1)
	for i, p := range x.Points {
		pre[i+1] = pre[i]
		if p.RunningEnabled && p.Chosen != 0 {
			pre[i+1]++
		}
	}
	for i := len(prefix); i < len(x.Points); i++ {
		p := x.Points[i]
		for alt := 1; alt < len(p.Enabled); alt++ {
			cost := pre[i]
			if p.RunningEnabled {
				cost++
			}
			if e.Bound >= 0 && cost > e.Bound {
				continue
			}
			np := append(append([]int(nil), x.Choices[:i]...), alt)
			e.explore(np)
			if e.Capped {
				return
			}
		}
	}
}
