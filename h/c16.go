package main

import (
	"encoding/json"
	"fmt"
	"net/url"
	"strings"
	"time"

	"github.com/ory/fosite"
)

// C16 — device grant: tokens only after approval, once, for the right client, in time.
// Exhaustive enumeration of all operation sequences up to a depth over <=2 device flows, on
// the reference store and on a store following the documented "invalidated => return the
// request with ErrInvalidatedDeviceCode" contract, with a lock-step model.

type c16Op struct {
	Op   string `json:"op"`             // auth | accept | accept-replace | reject | poll | advance
	Flow int    `json:"flow"`           // index of the device flow
	By   string `json:"by,omitempty"`   // poll: right | wrong | wrong+cid | wrong-public
	Code string `json:"code,omitempty"` // poll: genuine | forged-key | forged-usersig
}

func (o c16Op) String() string {
	switch o.Op {
	case "poll":
		return fmt.Sprintf("poll(f%d,%s,%s)", o.Flow, o.By, o.Code)
	case "advance", "auth":
		return o.Op
	}
	return fmt.Sprintf("%s(f%d)", o.Op, o.Flow)
}

type c16Case struct {
	// TinyUserCodes: user codes are drawn from a space of `TinyUserCodes` values (one symbol, that many lengths is not
	// possible, so: alphabet of that many symbols, length 1) while several flows are pending
	TinyUserCodes int     `json:"tiny_user_code_space,omitempty"`
	Contract      bool    `json:"contract"`
	JWT           bool    `json:"jwt,omitempty"`
	Seq           []c16Op `json:"seq"`
	// job mode
	Depth    int `json:"depth,omitempty"`
	MaxFlows int `json:"max_flows,omitempty"`
}

type c16Flow struct {
	dev, user string
	devSig    string
	state     string // undecided | accepted | rejected
	exp       time.Time
	consumed  bool
	at, rt    string
	replaced  bool
}

const c16L = 600

func c16Run(c c16Case, res *WRes, check bool) (outcomes []string) {
	w := NewWorld(Profile{ContractDevice: c.Contract, JWTAccess: c.JWT})
	var flows []*c16Flow
	seen := map[string]bool{}
	viol := func(upto int, fp, what, exp string, obs any) {
		if !check {
			return
		}
		cc := c
		cc.Depth, cc.MaxFlows = 0, 0
		cc.Seq = append([]c16Op(nil), c.Seq[:upto+1]...)
		res.violate(Violation{Property: "C16", Fingerprint: fp, What: what + " | history: " + c16Hist(cc.Seq), Engine: "c16", Case: cc, Expected: exp, Observed: obs})
	}
	for i, op := range c.Seq {
		last := i == len(c.Seq)-1
		_ = last
		switch op.Op {
		case "auth":
			logStart := len(w.Store.Log)
			o := w.DeviceAuth(url.Values{"client_id": {"A"}, "scope": {"offline a"}}, w.AuthFor("A"))
			f := &c16Flow{dev: o.Str("device_code"), user: o.Str("user_code"), state: "undecided", exp: w.Now().Add(c16L * time.Second)}
			if f.dev == "" || f.user == "" {
				res.note("sanity:device-auth-refused")
				outcomes = append(outcomes, "auth:"+o.Class())
				return
			}
			_, _, f.devSig = c06Split2(f.dev)
			flows = append(flows, f)
			outcomes = append(outcomes, "auth:ok")
			// stored only as signatures; distinct across requests
			for _, call := range w.Store.Log[logStart:] {
				for _, k := range call.Keys {
					if k == f.dev || k == f.user || strings.Contains(k, f.dev) || (len(f.user) >= 6 && strings.Contains(k, f.user)) {
						viol(i, "C16/code-stored-in-cleartext/"+call.Name, "a device or user code reached the storage layer in cleartext ("+call.Name+")", "signature only", call.Name)
					}
				}
				for _, vs := range call.Form {
					for _, v := range vs {
						if v == f.dev || v == f.user {
							viol(i, "C16/code-stored-in-form/"+call.Name, "a device or user code was stored inside the request form", "signature only", call.Name)
						}
					}
				}
			}
			if seen[f.dev] || seen[f.user] {
				viol(i, "C16/code-repeated", "a device or user code was issued twice", "distinct codes", []string{f.dev, f.user})
			}
			seen[f.dev], seen[f.user] = true, true
			if _, k, _ := c06Split2(f.dev); len(k) < 43 {
				viol(i, "C16/device-code-too-short", "the device code carries fewer than 32 random bytes", ">=32 bytes", f.dev)
			}
			if ei, ok := o.JSON["expires_in"].(float64); ok && (ei < c16L-1 || ei > c16L+1) {
				viol(i, "C16/expires_in-inconsistent", fmt.Sprintf("device authorization advertises expires_in=%v, lifetime is %d", ei, c16L), fmt.Sprint(c16L), ei)
			}
		case "accept", "accept-replace", "reject":
			f := flows[op.Flow]
			sig, _ := w.Dev.UserCodeSignature(nil, f.user)
			req, ok := w.Mem.DeviceAuths[sig]
			if !ok {
				// consumed flows are gone from the reference store; the decision has no addressee
				outcomes = append(outcomes, op.Op+":gone")
				continue
			}
			// the verification page validates the user code first
			if err := w.Dev.ValidateUserCode(nil, req, f.user); err != nil {
				if w.Now().Before(f.exp.Add(-time.Second)) {
					viol(i, "C16/user-code-refused-before-expiry", "an unexpired user code was refused at the verification step", "accepted", err.Error())
				}
				outcomes = append(outcomes, op.Op+":user-code-expired")
				continue
			} else if !w.Now().Before(f.exp.Add(time.Second)) {
				viol(i, "C16/expired-user-code-accepted", "an expired user code passed validation at the verification step", "expired_token", nil)
			}
			switch op.Op {
			case "accept":
				req.SetUserCodeState(fosite.UserCodeAccepted)
				if s, ok := req.GetSession().(*Sess); ok {
					s.SetSubject("device-user")
				}
				f.state = "accepted"
			case "accept-replace":
				// the consent application installs its own session object at approval
				req.SetSession(NewSess("device-user"))
				req.SetUserCodeState(fosite.UserCodeAccepted)
				f.state = "accepted"
				f.replaced = true
			case "reject":
				req.SetUserCodeState(fosite.UserCodeRejected)
				f.state = "rejected"
			}
			outcomes = append(outcomes, op.Op+":ok")
		case "advance":
			w.Advance((c16L + 5) * time.Second)
			outcomes = append(outcomes, "advance")
		case "poll":
			f := flows[op.Flow]
			code := f.dev
			pfx, k, sg := c06Split2(f.dev)
			switch op.Code {
			case "forged-key":
				kb := []byte(k)
				if kb[3] == 'A' {
					kb[3] = 'B'
				} else {
					kb[3] = 'A'
				}
				code = pfx + string(kb) + "." + sg
			case "forged-usersig":
				us, _ := w.Dev.UserCodeSignature(nil, f.user)
				code = pfx + k + "." + us
			}
			form := url.Values{"grant_type": {"urn:ietf:params:oauth:grant-type:device_code"}, "device_code": {code}}
			auth := w.AuthFor("A")
			switch op.By {
			case "wrong":
				auth = w.AuthFor("B")
			case "wrong+cid":
				auth = w.AuthFor("B")
				auth.Extra = url.Values{"client_id": {"A"}}
			case "wrong-public":
				auth = w.AuthFor("P") // a public client that did not start the flow
			}
			o := w.Token(form, auth)
			res.Trans++
			got := issued(o)
			now := w.Now()
			expired := !now.Before(f.exp.Add(time.Second))
			near := now.After(f.exp.Add(-time.Second)) && !expired
			genuine := op.Code == "genuine"
			right := op.By == "right"
			cls := fmt.Sprintf("poll:%s/%s/%s/exp=%v/consumed=%v:%s", op.By, op.Code, f.state, expired, f.consumed, o.Class())
			outcomes = append(outcomes, cls)
			may := genuine && right && f.state == "accepted" && !expired && !f.consumed
			if got && !may {
				why := ""
				switch {
				case !genuine:
					why = "forged-code:" + op.Code
				case !right:
					why = "wrong-client:" + op.By
				case f.consumed:
					why = "already-used"
				case f.state != "accepted":
					why = "user-code-" + f.state
				case expired:
					why = "expired"
				}
				viol(i, "C16/tokens-issued/"+why, "the token endpoint issued tokens for a device code that must not yield any ("+why+")", "refusal", o.JSON)
				return
			}
			if got {
				f.consumed = true
				f.at, f.rt = o.Str("access_token"), o.Str("refresh_token")
				continue
			}
			if !genuine {
				continue
			}
			// error classes where exactly one clause of the statement applies
			if f.consumed {
				if c.Contract {
					// the store reported the code as already used: tokens issued from it must be revoked
					for kind, t := range map[string]string{"access token": f.at, "refresh token": f.rt} {
						if t == "" {
							continue
						}
						if act, io := w.Active(t); act {
							viol(i, "C16/replay-did-not-revoke/"+strings.ReplaceAll(kind, " ", "_")+"/by="+op.By, "the device code was presented again, the store reported it as used, but the "+kind+" issued from it is still active", "inactive", io.JSON)
						}
					}
				}
				continue
			}
			if near {
				res.DontCare++
				continue
			}
			want := ""
			switch {
			case right && f.state == "undecided" && !expired:
				want = "authorization_pending"
			case right && f.state == "rejected" && !expired:
				want = "access_denied"
			case right && f.state == "accepted" && expired:
				want = "expired_token"
			case !right && f.state == "accepted" && !expired:
				want = "invalid_grant"
			default:
				res.DontCare++ // two clauses overlap; tokens are refused, which is all that is pinned
			}
			if want != "" && o.Err != want {
				viol(i, fmt.Sprintf("C16/wrong-error/want=%s/got=%s/by=%s", want, o.Err, op.By), fmt.Sprintf("polling (%s client, user code %s, expired=%v) answered %q", op.By, f.state, expired, o.Err), want, o.JSON)
			}
			if may {
				res.note("sanity:legit-poll-refused")
			}
		}
	}
	return outcomes
}

func c16Hist(seq []c16Op) string {
	s := make([]string, len(seq))
	for i, o := range seq {
		s[i] = o.String()
	}
	return strings.Join(s, " ; ")
}

func c16Alphabet(nflows, maxFlows int) []c16Op {
	var ops []c16Op
	if nflows < maxFlows {
		ops = append(ops, c16Op{Op: "auth"})
	}
	for f := 0; f < nflows; f++ {
		ops = append(ops, c16Op{Op: "accept", Flow: f}, c16Op{Op: "reject", Flow: f}, c16Op{Op: "accept-replace", Flow: f})
		ops = append(ops, c16Op{Op: "poll", Flow: f, By: "right", Code: "genuine"}, c16Op{Op: "poll", Flow: f, By: "wrong", Code: "genuine"}, c16Op{Op: "poll", Flow: f, By: "wrong+cid", Code: "genuine"}, c16Op{Op: "poll", Flow: f, By: "wrong-public", Code: "genuine"},
			c16Op{Op: "poll", Flow: f, By: "right", Code: "forged-key"}, c16Op{Op: "poll", Flow: f, By: "right", Code: "forged-usersig"})
	}
	if nflows > 0 {
		ops = append(ops, c16Op{Op: "advance"})
	}
	return ops
}

// c16TinyUserCodes: with a user-code space of n values, n+1 device authorizations are started without any decision.
// User codes of pending flows must be distinct (the store has to report a collision so that the endpoint draws again or
// fails); a pending flow's user code must keep leading to that flow.
func c16TinyUserCodes(c c16Case, res *WRes) {
	w := NewWorld(Profile{ContractDevice: c.Contract})
	w.Cfg.UserCodeLength = 1
	w.Cfg.UserCodeSymbols = []rune("ABCDEFGH")[:c.TinyUserCodes]
	seen := map[string]string{} // user code -> device code of the pending flow
	for i := 0; i <= c.TinyUserCodes; i++ {
		o := w.DeviceAuth(url.Values{"client_id": {"A"}, "scope": {"a"}}, w.AuthFor("A"))
		res.Trans++
		uc, dc := o.Str("user_code"), o.Str("device_code")
		res.class(fmt.Sprintf("tiny-user-codes:auth#%d:%s", i+1, map[bool]string{true: "issued", false: o.Class()}[uc != ""]))
		if uc == "" {
			continue // refused once the space is exhausted: fine
		}
		if prev, dup := seen[uc]; dup {
			res.violate(Violation{Property: "C16", Fingerprint: "C16/user-code-handed-out-twice-while-pending", What: fmt.Sprintf("device authorization #%d received user code %q, which still belongs to a pending flow (device code %s…): the earlier flow's user code now leads to the later flow", i+1, uc, prev[:12]), Engine: "c16", Case: c, Expected: "a distinct user code, or a refusal", Observed: o.JSON})
			return
		}
		seen[uc] = dc
	}
	res.note("tiny-user-codes-checked")
}

func c16Job(arg json.RawMessage) (any, error) {
	var c c16Case
	if err := json.Unmarshal(arg, &c); err != nil {
		return nil, err
	}
	res := &WRes{}
	if c.TinyUserCodes > 0 {
		c16TinyUserCodes(c, res)
		res.Evals++
		res.distinct(fmt.Sprintf("tiny|%d|%v", c.TinyUserCodes, c.Contract))
		return res, nil
	}
	// depth-first over all sequences with the given prefix, exactly Depth further ops; every
	// sequence is executed from scratch and every step is judged (prefixes are re-judged, harmless)
	var rec func(seq []c16Op, nflows int, left int)
	rec = func(seq []c16Op, nflows int, left int) {
		if left == 0 {
			cc := c
			cc.Seq = seq
			n := len(res.Viol)
			out := c16Run(cc, res, true)
			res.Evals++
			res.States++
			res.Traces++
			res.distinct(fmt.Sprintf("%v|%v|%v", c.Contract, seq, out))
			for _, o := range out {
				res.class(o)
			}
			if len(res.Viol) == n {
				res.sample(map[string]any{"contract_store": c.Contract, "history": c16Hist(seq), "outcomes": out})
			}
			return
		}
		for _, op := range c16Alphabet(nflows, c.MaxFlows) {
			nf := nflows
			if op.Op == "auth" {
				nf++
			}
			rec(append(append([]c16Op(nil), seq...), op), nf, left-1)
		}
	}
	nf := 0
	for _, o := range c.Seq {
		if o.Op == "auth" {
			nf++
		}
	}
	// iterative deepening: the first counterexample of a class is also a shortest one
	for L := 0; L <= c.Depth; L++ {
		rec(c.Seq, nf, L)
	}
	return res, nil
}

func init() {
	registerWorker("c16", c16Job)
	replayFns["c16"] = func(raw json.RawMessage) ([]Violation, error) {
		var c c16Case
		if err := json.Unmarshal(raw, &c); err != nil {
			return nil, err
		}
		res := &WRes{}
		if c.TinyUserCodes > 0 {
			c16TinyUserCodes(c, res)
			return res.Viol, nil
		}
		c16Run(c, res, true)
		return res.Viol, nil
	}
	registerCheck("C16", "model_checking", 120*time.Second, 30*time.Minute, func(r *Run) {
		d1, d2 := 6, 5
		if !r.Quick() {
			d1, d2 = 8, 6
		}
		var jobs []any
		for _, contract := range []bool{false, true} {
			for _, n := range []int{1, 2, 3} {
				jobs = append(jobs, c16Case{Contract: contract, TinyUserCodes: n})
			}
		}
		for _, contract := range []bool{false, true} {
			for _, jwt := range []bool{false, true} {
				if jwt && r.Quick() {
					continue
				}
				// shard on the first two operations after the initial device authorization
				for _, maxFlows := range []int{1, 2} {
					depth := d1
					if maxFlows == 2 {
						depth = d2
					}
					for _, a := range c16Alphabet(1, maxFlows) {
						nf := 1
						if a.Op == "auth" {
							nf = 2
						}
						for _, b := range c16Alphabet(nf, maxFlows) {
							if maxFlows == 2 && a.Op != "auth" && b.Op != "auth" {
								// histories without a second flow are already covered by the 1-flow search
								continue
							}
							jobs = append(jobs, c16Case{Contract: contract, JWT: jwt, Seq: []c16Op{{Op: "auth"}, a, b}, Depth: depth - 3, MaxFlows: maxFlows})
						}
					}
				}
			}
		}
		r.Bounds = map[string]any{"depth_one_flow": d1, "depth_two_flows": d2, "stores": []string{"reference MemoryStore", "contract-following (keeps invalidated code, answers ErrInvalidatedDeviceCode + request)"},
			"alphabet": "device_auth; accept | accept-with-replaced-session | reject (flow); poll(flow, right|wrong|wrong+body-client_id|wrong-public-client, genuine|forged-random-part|forged-with-user-code-signature); advance(past lifetime)"}
		r.Rule = "every operation sequence up to the depth (depth-first, each executed from scratch on a fresh provider) with a lock-step model of each flow (decision, expiry, consumed); a two-flow history that never starts the second flow is not repeated; distinct = distinct (store, sequence, outcome vector)"
		r.Assumptions = []string{"error class is pinned only where exactly one clause of the statement applies (overlaps are don't-care, tokens are refused in all of them)", "user-code entropy relies on ory/x randx whose reader cannot be substituted; distinctness is checked per history"}
		res := r.Pool.Do("c16", jobs, r.Deadline)
		if !r.MergeJobs(res) {
			r.Exhaustive = false
		}
		overlapPart(r, []string{"device", "device-contract"})
	})
}
