package main

import (
	"crypto"
	"crypto/ecdsa"
	"crypto/hmac"
	"crypto/rsa"
	"crypto/sha256"
	"crypto/sha512"
	"encoding/base64"
	"encoding/json"
	"fmt"
	"hash"
	"math/big"
	"sort"
	"strings"

	"github.com/go-jose/go-jose/v3"
)

func b64(b []byte) string { return base64.RawURLEncoding.EncodeToString(b) }

// signJWT builds a compact JWS by hand so that every header (alg none, HS* keyed with
// arbitrary bytes, mismatching kid, ...) can be produced. key: crypto.Signer for RS/PS/ES,
// []byte for HS, nil for none.
func signJWT(key any, alg, kid string, claims map[string]any, extraHeader map[string]any) string {
	h := map[string]any{"alg": alg, "typ": "JWT"}
	if kid != "" {
		h["kid"] = kid
	}
	for k, v := range extraHeader {
		h[k] = v
	}
	hb, _ := json.Marshal(h)
	cb, _ := json.Marshal(claims)
	signing := b64(hb) + "." + b64(cb)
	var sig []byte
	var hf crypto.Hash
	switch alg[len(alg)-3:] {
	case "256":
		hf = crypto.SHA256
	case "384":
		hf = crypto.SHA384
	case "512":
		hf = crypto.SHA512
	}
	digest := func() []byte {
		hh := hf.New()
		hh.Write([]byte(signing))
		return hh.Sum(nil)
	}
	switch {
	case alg == "none":
		sig = nil
	case strings.HasPrefix(alg, "HS"):
		var nf func() hash.Hash
		switch hf {
		case crypto.SHA256:
			nf = sha256.New
		case crypto.SHA384:
			nf = sha512.New384
		default:
			nf = sha512.New
		}
		m := hmac.New(nf, key.([]byte))
		m.Write([]byte(signing))
		sig = m.Sum(nil)
	case strings.HasPrefix(alg, "RS"):
		s, err := rsa.SignPKCS1v15(realRand, key.(*rsa.PrivateKey), hf, digest())
		if err != nil {
			panic(err)
		}
		sig = s
	case strings.HasPrefix(alg, "PS"):
		s, err := rsa.SignPSS(realRand, key.(*rsa.PrivateKey), hf, digest(), &rsa.PSSOptions{SaltLength: rsa.PSSSaltLengthEqualsHash})
		if err != nil {
			panic(err)
		}
		sig = s
	case strings.HasPrefix(alg, "ES"):
		k := key.(*ecdsa.PrivateKey)
		r, s, err := ecdsa.Sign(realRand, k, digest())
		if err != nil {
			panic(err)
		}
		n := (k.Curve.Params().BitSize + 7) / 8
		sig = append(padInt(r, n), padInt(s, n)...)
	default:
		panic("alg " + alg)
	}
	return signing + "." + b64(sig)
}

func padInt(x *big.Int, n int) []byte {
	b := x.Bytes()
	if len(b) >= n {
		return b
	}
	return append(make([]byte, n-len(b)), b...)
}

func pubJWK(key crypto.Signer, kid, alg string) jose.JSONWebKey {
	return jose.JSONWebKey{Key: key.Public(), KeyID: kid, Algorithm: alg, Use: "sig"}
}

func jwks(keys ...jose.JSONWebKey) *jose.JSONWebKeySet { return &jose.JSONWebKeySet{Keys: keys} }

// decodeJWT returns header and claims without verification.
func decodeJWT(tok string) (hdr, claims map[string]any, err error) {
	parts := strings.Split(tok, ".")
	if len(parts) != 3 {
		return nil, nil, fmt.Errorf("jwt: %d parts", len(parts))
	}
	hb, err := base64.RawURLEncoding.DecodeString(parts[0])
	if err != nil {
		return nil, nil, err
	}
	cb, err := base64.RawURLEncoding.DecodeString(parts[1])
	if err != nil {
		return nil, nil, err
	}
	if err := json.Unmarshal(hb, &hdr); err != nil {
		return nil, nil, err
	}
	if err := json.Unmarshal(cb, &claims); err != nil {
		return nil, nil, err
	}
	return hdr, claims, nil
}

// verifyJWT checks the signature with a public key according to the header alg.
func verifyJWT(tok string, pub crypto.PublicKey) error {
	parts := strings.Split(tok, ".")
	if len(parts) != 3 {
		return fmt.Errorf("jwt: %d parts", len(parts))
	}
	hdr, _, err := decodeJWT(tok)
	if err != nil {
		return err
	}
	alg, _ := hdr["alg"].(string)
	sig, err := base64.RawURLEncoding.DecodeString(parts[2])
	if err != nil {
		return err
	}
	var hf crypto.Hash
	if len(alg) < 5 {
		return fmt.Errorf("alg %q", alg)
	}
	switch alg[2:] {
	case "256":
		hf = crypto.SHA256
	case "384":
		hf = crypto.SHA384
	case "512":
		hf = crypto.SHA512
	default:
		return fmt.Errorf("alg %q", alg)
	}
	hh := hf.New()
	hh.Write([]byte(parts[0] + "." + parts[1]))
	d := hh.Sum(nil)
	switch k := pub.(type) {
	case *rsa.PublicKey:
		if strings.HasPrefix(alg, "RS") {
			return rsa.VerifyPKCS1v15(k, hf, d, sig)
		}
		if strings.HasPrefix(alg, "PS") {
			return rsa.VerifyPSS(k, hf, d, sig, nil)
		}
	case *ecdsa.PublicKey:
		if strings.HasPrefix(alg, "ES") {
			n := len(sig) / 2
			r := new(big.Int).SetBytes(sig[:n])
			s := new(big.Int).SetBytes(sig[n:])
			if ecdsa.Verify(k, d, r, s) {
				return nil
			}
			return fmt.Errorf("ecdsa verification failed")
		}
	}
	return fmt.Errorf("alg %q does not fit key %T", alg, pub)
}

// jwtAccessClaims: the scope and audience a JWT access token names itself (what a resource server that validates
// offline reads); ok is false for opaque tokens.
func jwtAccessClaims(tok string) (scopes, aud []string, ok bool) {
	if strings.Count(tok, ".") != 2 {
		return nil, nil, false
	}
	_, cl, err := decodeJWT(tok)
	if err != nil {
		return nil, nil, false
	}
	seen := map[string]bool{}
	addS := func(x string) {
		if x != "" && !seen[x] {
			seen[x] = true
			scopes = append(scopes, x)
		}
	}
	switch v := cl["scp"].(type) {
	case []any:
		for _, x := range v {
			if sx, isS := x.(string); isS {
				addS(sx)
			}
		}
	case string:
		for _, x := range strings.Fields(v) {
			addS(x)
		}
	}
	if v, isS := cl["scope"].(string); isS {
		for _, x := range strings.Fields(v) {
			addS(x)
		}
	}
	switch v := cl["aud"].(type) {
	case []any:
		for _, x := range v {
			if sx, isS := x.(string); isS && sx != "" {
				aud = append(aud, sx)
			}
		}
	case string:
		if v != "" {
			aud = append(aud, v)
		}
	}
	sort.Strings(scopes)
	sort.Strings(aud)
	return scopes, aud, true
}
