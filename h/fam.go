package main

import (
	"encoding/json"
	"fmt"
	"net/url"
	"sort"
	"strings"
	"time"
)

// "Family" machine: explicit-state search over API histories (authorize / redeem / refresh /
// revoke / grant by password or device / time advance) with a lock-step reference model of
// grants and token generations. Serves C01, C04, C08, C09 (and feeds C02/C05/C07 variants).

type Op struct {
	Op     string `json:"op"`               // authz | redeem | refresh | revoke | password | device | cc | advance
	Client string `json:"client,omitempty"` // authz/password/device: which client
	Flow   string `json:"flow,omitempty"`   // authz: code | hyb-idt | hyb-tok
	Ref    string `json:"ref,omitempty"`    // code#n / rt#n / at#n
	By     string `json:"by,omitempty"`     // owner | other | badsecret
	Hint   string `json:"hint,omitempty"`   // revoke: "", access_token, refresh_token, garbage
	Secs   int    `json:"secs,omitempty"`   // advance
}

func (o Op) String() string {
	switch o.Op {
	case "authz":
		return fmt.Sprintf("authz(%s,%s)", o.Client, o.Flow)
	case "advance":
		return fmt.Sprintf("advance(%ds)", o.Secs)
	case "revoke":
		return fmt.Sprintf("revoke(%s,by=%s,hint=%s)", o.Ref, o.By, o.Hint)
	case "password", "device", "cc":
		return fmt.Sprintf("%s(%s)", o.Op, o.Client)
	}
	return fmt.Sprintf("%s(%s,by=%s)", o.Op, o.Ref, o.By)
}

type MTok struct {
	Name    string
	Kind    string // at | rt
	Val     string
	Grant   int
	Gen     int
	ByAuthz bool   // issued by the authorization endpoint (hybrid), not by the token endpoint
	Status  string // live | rotated | revoked | killed | unknown-dead
	Cause   string // property id responsible for the current status (for attribution)
	Exp     time.Time
	Pair    string // sibling issued alongside
	Used    bool   // rt: exchanged successfully once
}

type MGrant struct {
	ID       int
	Client   string
	Subject  string
	Scopes   []string
	Aud      []string
	Origin   string
	Code     string
	CodeName string
	CodeExp  time.Time
	Redeemed bool
	Dead     bool
	Gens     int
	PARURI   string // request_uri the authorization was started from (flow "par")
}

type Model struct {
	Grants []*MGrant
	Toks   []*MTok
	byName map[string]*MTok
	nAT    int
	nRT    int
}

func (m *Model) tok(name string) *MTok { return m.byName[name] }
func (m *Model) addTok(kind, val string, g *MGrant, gen int, byAuthz bool, exp time.Time) *MTok {
	var name string
	if kind == "at" {
		m.nAT++
		name = fmt.Sprintf("at#%d", m.nAT)
	} else {
		m.nRT++
		name = fmt.Sprintf("rt#%d", m.nRT)
	}
	t := &MTok{Name: name, Kind: kind, Val: val, Grant: g.ID, Gen: gen, ByAuthz: byAuthz, Status: "live", Exp: exp}
	m.Toks = append(m.Toks, t)
	if m.byName == nil {
		m.byName = map[string]*MTok{}
	}
	m.byName[name] = t
	return t
}

func (m *Model) Key() string {
	var sb strings.Builder
	for _, g := range m.Grants {
		fmt.Fprintf(&sb, "g%d %s %s red=%v dead=%v cexp=%d|", g.ID, g.Client, g.Origin, g.Redeemed, g.Dead, int64(g.CodeExp.Sub(Epoch)/time.Second))
	}
	for _, t := range m.Toks {
		fmt.Fprintf(&sb, "%s g%d gen%d az=%v %s used=%v exp=%d|", t.Name, t.Grant, t.Gen, t.ByAuthz, t.Status, t.Used, int64(t.Exp.Sub(Epoch)/time.Second))
	}
	return sb.String()
}

// FamSpec: alphabet and bounds of one search.
type FamSpec struct {
	Prop      string   `json:"prop"`
	Profile   Profile  `json:"profile"`
	Depth     int      `json:"depth"`
	MaxGrants int      `json:"max_grants"`
	Grants    []Op     `json:"grants"`     // grant-creating ops allowed
	RedeemBy  []string `json:"redeem_by"`  // owner, other, badsecret
	RefreshBy []string `json:"refresh_by"` // owner, other, badsecret
	RevokeBy  []string `json:"revoke_by"`  // owner, other, badsecret (empty: no revocation)
	Hints     []string `json:"hints"`      // token_type_hint alphabet for revoke
	Advances  []int    `json:"advances"`   // seconds
	MaxGen    int      `json:"max_gen"`    // bound on refresh chain length per grant (0 = depth)
	C09       bool     `json:"c09"`        // run the introspection variant grid in every state
}

type Fam struct {
	S         FamSpec
	W         *World
	M         *Model
	Res       *WRes
	Hist      []Op
	quiet     bool // replaying a prefix: no sweep comparison, no violations
	lastClass string
	lastObs   string
	inSweep   bool
	adopted   []string // tokens set to unknown-dead by the last sweep (carried to descendants)
	adoptsIn  [][]string
}

func NewFam(s FamSpec, res *WRes) *Fam {
	return &Fam{S: s, W: NewWorld(s.Profile), M: &Model{}, Res: res}
}

func (f *Fam) other(client string) string {
	if client == "A" {
		return "B"
	}
	return "A"
}

// foreignBy: the caller authenticates correctly, but as a client other than the owner of the credential.
func foreignBy(by string) bool { return by == "other" || by == "casevariant" || by == "other-public" }

func (f *Fam) authBy(owner, by string) Auth {
	switch by {
	case "owner", "owner-forged":
		return f.W.AuthFor(owner)
	case "other":
		return f.W.AuthFor(f.other(owner))
	case "casevariant":
		// a different registered client whose id differs only in letter case
		return f.W.AuthFor(strings.ToLower(owner))
	case "other-public":
		// a different registered client that is public (authenticates with its client_id alone)
		if owner == "P" {
			return f.W.AuthFor("p")
		}
		return f.W.AuthFor("P")
	case "badsecret":
		if c := f.W.Mem.Clients[owner]; c != nil && c.IsPublic() {
			// a public client has no secret to get wrong: present a confidential client id with a wrong secret instead
			return BasicAuth("A", "wrong-secret")
		}
		return BasicAuth(owner, "wrong-secret")
	}
	panic("by " + by)
}

func (f *Fam) violate(prop, fp, what, expected string, observed any) {
	if f.quiet {
		return
	}
	if prop != f.S.Prop {
		f.Res.note("other-property-clause:" + prop)
		return
	}
	hist := append([]Op(nil), f.Hist...)
	f.Res.violate(Violation{Property: prop, Fingerprint: fp, What: what + " | history: " + histString(hist), Engine: "fam",
		Case: map[string]any{"spec": f.S, "hist": hist, "adopts": f.adoptsIn}, Expected: expected, Observed: observed})
}

func histString(h []Op) string {
	s := make([]string, len(h))
	for i, o := range h {
		s[i] = o.String()
	}
	return strings.Join(s, " ; ")
}

// ---------------------------------------------------------------- enabled operations

func (f *Fam) Enabled() []Op {
	var ops []Op
	if len(f.M.Grants) < f.S.MaxGrants {
		for _, g := range f.S.Grants {
			if g.Flow == "par-again" {
				// only meaningful once an authorization was started from a pushed request
				have := false
				for _, mg := range f.M.Grants {
					have = have || mg.PARURI != ""
				}
				if !have {
					continue
				}
			}
			ops = append(ops, g)
		}
	}
	for _, g := range f.M.Grants {
		if g.Code != "" {
			for _, by := range f.S.RedeemBy {
				ops = append(ops, Op{Op: "redeem", Ref: g.CodeName, By: by})
			}
		}
	}
	maxGen := f.S.MaxGen
	for _, t := range f.M.Toks {
		if t.Kind == "rt" {
			if maxGen > 0 && f.M.Grants[t.Grant].Gens > maxGen && t.Status == "live" {
				continue
			}
			for _, by := range f.S.RefreshBy {
				ops = append(ops, Op{Op: "refresh", Ref: t.Name, By: by})
			}
		}
	}
	for _, t := range f.M.Toks {
		for _, by := range f.S.RevokeBy {
			for _, h := range f.S.Hints {
				ops = append(ops, Op{Op: "revoke", Ref: t.Name, By: by, Hint: h})
			}
		}
	}
	for _, s := range f.S.Advances {
		ops = append(ops, Op{Op: "advance", Secs: s})
	}
	return ops
}

// ---------------------------------------------------------------- applying operations

func (f *Fam) lifespanAT() time.Duration { return f.W.Cfg.AccessTokenLifespan }
func (f *Fam) lifespanRT() time.Duration { return f.W.Cfg.RefreshTokenLifespan }

func (f *Fam) recordPair(o *Obs, g *MGrant, byAuthz bool) (at, rt *MTok) {
	now := f.W.Now()
	gen := g.Gens
	if v := o.Str("access_token"); v != "" {
		at = f.M.addTok("at", v, g, gen, byAuthz, now.Add(f.lifespanAT()).Round(time.Second))
	}
	if v := o.Str("refresh_token"); v != "" {
		var exp time.Time
		if f.lifespanRT() > 0 {
			exp = now.Add(f.lifespanRT()).Round(time.Second)
		}
		rt = f.M.addTok("rt", v, g, gen, byAuthz, exp)
	}
	if at != nil && rt != nil {
		at.Pair, rt.Pair = rt.Name, at.Name
	}
	g.Gens++
	return
}

// killFamily: every token issued by the token endpoint for that grant becomes inactive.
func (f *Fam) killFamily(g *MGrant, cause string) {
	g.Dead = true
	for _, t := range f.M.Toks {
		if t.Grant == g.ID && !t.ByAuthz && t.Status == "live" {
			t.Status, t.Cause = "killed", cause
		}
	}
	f.resyncAuthzIssued(g)
}

// Tokens issued by the authorization endpoint itself (hybrid flow) are exempt from the
// family clauses: whether they survive a rotation / kill of their grant is not pinned.
func (f *Fam) resyncAuthzIssued(g *MGrant) {
	f.resync(func(x *MTok) bool { return x.Grant == g.ID && x.ByAuthz })
}

func (f *Fam) expLive(t *MTok) (live bool, dontcare bool) {
	if t.Kind == "rt" && f.W.P.DisableRTValidation && f.inSweep {
		return false, false // refresh-token introspection disabled: never reported active
	}
	if t.Kind == "rt" && f.W.P.StatelessJWTIntrospectionFirst && f.inSweep {
		return false, true // the stateless JWT validator in front cannot read an opaque refresh token: not pinned
	}
	if t.Status != "live" {
		return false, false
	}
	if t.Exp.IsZero() {
		return true, false
	}
	d := t.Exp.Sub(f.W.Now())
	if d > -time.Second && d < time.Second {
		return false, true
	}
	return d > 0, false
}

// resync: the property is silent about the state after this step — adopt what the
// implementation reports (live stays live only if introspection agrees).
func (f *Fam) resync(filter func(t *MTok) bool) {
	for _, t := range f.M.Toks {
		if filter != nil && !filter(t) {
			continue
		}
		if t.Kind == "rt" && (f.W.P.DisableRTValidation || f.W.P.StatelessJWTIntrospectionFirst) {
			continue // not observable through introspection in this configuration
		}
		if live, dc := f.expLive(t); live && !dc {
			if act, _ := f.W.Active(t.Val); !act {
				t.Status, t.Cause = "unknown-dead", "dontcare"
				f.Res.DontCare++
			}
		}
	}
}

// Apply executes one operation on the real provider and the model; returns an outcome class.
func (f *Fam) Apply(op Op) string {
	f.Hist = append(f.Hist, op)
	w := f.W
	switch op.Op {
	case "advance":
		w.Advance(time.Duration(op.Secs) * time.Second)
		return "advance"
	case "authz":
		return f.applyAuthz(op)
	case "password":
		o := w.Token(url.Values{"grant_type": {"password"}, "username": {"peter"}, "password": {"pw-peter"}, "scope": {"offline a"}}, w.AuthFor(op.Client))
		if o.Str("access_token") == "" {
			f.Res.note("sanity:password-grant-refused")
			return "password:" + o.Class()
		}
		g := &MGrant{ID: len(f.M.Grants), Client: op.Client, Scopes: []string{"offline", "a"}, Origin: "password"}
		f.M.Grants = append(f.M.Grants, g)
		f.recordPair(o, g, false)
		return "password:ok"
	case "cc":
		o := w.Token(url.Values{"grant_type": {"client_credentials"}, "scope": {"a"}}, w.AuthFor(op.Client))
		if o.Str("access_token") == "" {
			f.Res.note("sanity:cc-grant-refused")
			return "cc:" + o.Class()
		}
		g := &MGrant{ID: len(f.M.Grants), Client: op.Client, Scopes: []string{"a"}, Origin: "cc", Subject: ""}
		f.M.Grants = append(f.M.Grants, g)
		f.recordPair(o, g, false)
		return "cc:ok"
	case "device":
		return f.applyDevice(op)
	case "redeem":
		return f.applyRedeem(op)
	case "refresh":
		return f.applyRefresh(op)
	case "revoke":
		return f.applyRevoke(op)
	}
	panic("unknown op " + op.Op)
}

func (f *Fam) applyAuthz(op Op) string {
	w := f.W
	params := url.Values{
		"client_id":     {op.Client},
		"redirect_uri":  {"https://" + op.Client + ".example/cb"},
		"state":         {"state-12345678"},
		"response_type": {"code"},
		"scope":         {"offline a"},
	}
	switch op.Flow {
	case "hyb-idt":
		params.Set("response_type", "code id_token")
		params.Set("scope", "openid offline a")
		params.Set("nonce", "nonce-12345678")
	case "hyb-tok":
		params.Set("response_type", "code token")
		params.Set("scope", "openid offline a")
		params.Set("nonce", "nonce-12345678")
	case "oidc":
		params.Set("scope", "openid offline a")
		params.Set("nonce", "nonce-12345678")
	}
	sub := fmt.Sprintf("user-%d", len(f.M.Grants)+1)
	opts := AuthzOpts{Subject: sub}
	grantedScopes := strings.Fields(params.Get("scope"))
	if op.Flow == "code-partial" {
		// the resource owner grants less than the client asked for
		params.Set("scope", "offline a photos")
		grantedScopes = []string{"offline", "a"}
		opts.GrantScopes = func(req []string) []string { return without(req, "photos") }
	}
	var o *Obs
	parURI := ""
	switch op.Flow {
	case "par":
		// pushed authorization request, then the front-channel leg
		po := w.PAR(params, w.AuthFor(op.Client))
		parURI = po.Str("request_uri")
		if parURI == "" {
			f.Res.note("sanity:push-refused")
			return "authz:push:" + po.Class()
		}
		o = w.Authorize(url.Values{"client_id": {op.Client}, "request_uri": {parURI}}, opts)
	case "par-again":
		// the same request_uri is sent to the authorization endpoint once more (a request_uri is single-use: C17);
		// should the server start a second authorization from it, that is a grant of its own for this model
		for _, mg := range f.M.Grants {
			if mg.PARURI != "" && mg.Client == op.Client {
				parURI = mg.PARURI
			}
		}
		o = w.Authorize(url.Values{"client_id": {op.Client}, "request_uri": {parURI}}, opts)
		if o.Param("code") == "" {
			return "authz:par-again:" + o.Class()
		}
	default:
		o = w.Authorize(params, opts)
	}
	code := o.Param("code")
	if code == "" {
		f.Res.note("sanity:authorize-refused:" + op.Flow)
		return "authz:" + o.Class()
	}
	g := &MGrant{ID: len(f.M.Grants), Client: op.Client, Subject: sub, Scopes: grantedScopes, Origin: op.Flow, PARURI: parURI,
		Code: code, CodeExp: w.Now().Add(w.Cfg.AuthorizeCodeLifespan)}
	g.CodeName = fmt.Sprintf("code#%d", g.ID+1)
	f.M.Grants = append(f.M.Grants, g)
	if at := o.Param("access_token"); at != "" {
		t := f.M.addTok("at", at, g, -1, true, w.Now().Add(f.lifespanAT()).Round(time.Second))
		_ = t
	}
	return "authz:code"
}

func (f *Fam) applyDevice(op Op) string {
	w := f.W
	o := w.DeviceAuth(url.Values{"scope": {"offline a"}, "client_id": {op.Client}}, w.AuthFor(op.Client))
	dc := o.Str("device_code")
	if dc == "" {
		f.Res.note("sanity:device-auth-refused")
		return "device:" + o.Class()
	}
	if !w.AcceptUserCode(o.Str("user_code"), true) {
		f.Res.note("sanity:device-accept-failed")
		return "device:accept-failed"
	}
	t := w.Token(url.Values{"grant_type": {"urn:ietf:params:oauth:grant-type:device_code"}, "device_code": {dc}}, w.AuthFor(op.Client))
	if t.Str("access_token") == "" {
		f.Res.note("sanity:device-poll-refused")
		return "device:" + t.Class()
	}
	g := &MGrant{ID: len(f.M.Grants), Client: op.Client, Scopes: []string{"offline", "a"}, Origin: "device"}
	f.M.Grants = append(f.M.Grants, g)
	f.recordPair(t, g, false)
	return "device:ok"
}

func (f *Fam) grantByCode(name string) *MGrant {
	for _, g := range f.M.Grants {
		if g.CodeName == name {
			return g
		}
	}
	return nil
}

func issued(o *Obs) bool {
	return o.Str("access_token") != "" || o.Str("refresh_token") != "" || o.Str("id_token") != ""
}

func (f *Fam) applyRedeem(op Op) string {
	w := f.W
	g := f.grantByCode(op.Ref)
	before := ""
	if !f.quiet {
		before = w.StateKey()
	}
	form := url.Values{"grant_type": {"authorization_code"}, "code": {g.Code}, "redirect_uri": {"https://" + g.Client + ".example/cb"}}
	o := w.Token(form, f.authBy(g.Client, op.By))
	f.lastObs = o.GoErr
	cls := "redeem:" + op.By + ":" + o.Class()
	now := w.Now()
	expired := !now.Before(g.CodeExp.Add(time.Second))
	nearExp := now.After(g.CodeExp.Add(-time.Second)) && now.Before(g.CodeExp.Add(time.Second))
	authenticated := op.By != "badsecret"
	switch {
	case !authenticated:
		if issued(o) {
			f.violate("C10", "C10/redeem-issued-without-client-auth", "code redeemed by a caller that failed client authentication", "invalid_client", o)
			f.violate("C01", "C01/redeem-issued-without-client-auth", "code redeemed by a caller that failed client authentication", "invalid_client", o)
		}
		if !f.quiet && w.StateKey() != before {
			f.violate("C10", "C10/failed-auth-changed-state/redeem", "a token request that failed client authentication changed stored grant state", "unchanged store", nil)
		}
	case g.Redeemed:
		// later presentation of a redeemed code
		if issued(o) {
			f.violate("C01", "C01/code-redeemed-twice/by="+op.By, "an authorization code yielded tokens a second time", "refusal", o)
			f.recordPair(o, g, false)
		} else if o.Err != "invalid_grant" {
			f.violate("C01", "C01/replay-not-invalid_grant/by="+op.By+"/got="+o.Err, "replay of a redeemed code by an authenticated client was not answered with invalid_grant", "invalid_grant", o)
		}
		f.killFamily(g, "C01")
	case foreignBy(op.By):
		if issued(o) {
			f.violate("C02", "C02/foreign-client-redeemed-code", "a code was redeemed by a client it was not issued to", "invalid_grant", o)
			f.recordPair(o, g, false)
			g.Redeemed = true
		} else {
			if o.Err != "invalid_grant" && !expired && !nearExp {
				f.violate("C02", "C02/foreign-client-not-invalid_grant/got="+o.Err, "redemption by a foreign client was not refused with invalid_grant", "invalid_grant", o)
			}
			if !f.quiet && w.StateKey() != before {
				f.violate("C02", "C02/refused-attempt-changed-state/foreign-client", "a refused redemption attempt changed stored state (code must stay usable by its holder)", "unchanged store", nil)
			}
		}
	default: // owner, first presentation
		if issued(o) {
			if expired {
				f.violate("C07", "C07/expired-code-redeemed", "an expired authorization code was redeemed", "refusal", o)
				f.violate("C02", "C02/expired-code-redeemed", "an expired authorization code was redeemed", "refusal", o)
			}
			g.Redeemed = true
			f.recordPair(o, g, false)
			cls = "redeem:owner:ok"
		} else {
			if !expired && !nearExp {
				f.Res.note("sanity:legit-redeem-refused")
			}
		}
	}
	return cls
}

func (f *Fam) applyRefresh(op Op) string {
	w := f.W
	t := f.M.tok(op.Ref)
	g := f.M.Grants[t.Grant]
	before := ""
	if !f.quiet {
		before = w.StateKey()
	}
	o := w.Token(url.Values{"grant_type": {"refresh_token"}, "refresh_token": {t.Val}}, f.authBy(g.Client, op.By))
	cls := "refresh:" + op.By + ":" + t.Status + ":" + o.Class()
	authenticated := op.By != "badsecret"
	live, nearExp := f.expLive(t)
	switch {
	case !authenticated:
		if issued(o) {
			f.violate("C10", "C10/refresh-issued-without-client-auth", "refresh honoured for a caller that failed client authentication", "invalid_client", o)
		}
		if !f.quiet && w.StateKey() != before {
			f.violate("C10", "C10/failed-auth-changed-state/refresh", "a token request that failed client authentication changed stored grant state", "unchanged store", nil)
		}
	case t.Used:
		// reuse of an already exchanged refresh token: refused + whole family dead
		if issued(o) {
			f.violate("C04", "C04/refresh-token-exchanged-twice/by="+op.By, "a refresh token was exchanged successfully a second time", "invalid_grant", o)
			f.recordPair(o, g, false)
		} else if o.Err != "invalid_grant" {
			f.violate("C04", "C04/reuse-not-invalid_grant/by="+op.By+"/got="+o.Err, "presenting an already-used refresh token was not refused with invalid_grant", "invalid_grant", o)
		}
		f.killFamily(g, "C04")
	case issued(o):
		if foreignBy(op.By) {
			f.violate("C05", "C05/refresh-honoured-for-foreign-client", "a refresh token was honoured for a client it was not issued to", "refusal", o)
		}
		if t.Status != "live" {
			f.violate("C09", "C09/dead-refresh-token-honoured/status="+t.Status, "a refresh token that was "+t.Status+" was exchanged for new tokens", "refusal", o)
			switch t.Cause {
			case "C01":
				f.violate("C01", "C01/killed-refresh-token-honoured", "a refresh token descending from a replayed code was still exchanged", "refusal", o)
			case "C04":
				f.violate("C04", "C04/killed-refresh-token-honoured", "a refresh token of a family killed by reuse detection was still exchanged", "refusal", o)
			case "C08":
				f.violate("C08", "C08/revoked-refresh-token-honoured", "a revoked refresh token was still exchanged", "refusal", o)
			}
		} else if !live && !nearExp {
			f.violate("C07", "C07/expired-refresh-token-honoured", "an expired refresh token was exchanged", "refusal", o)
		}
		// rotation
		t.Used = true
		t.Status, t.Cause = "rotated", "C04"
		if p := f.M.tok(t.Pair); p != nil && p.Status == "live" {
			p.Status, p.Cause = "rotated", "C04"
		}
		f.resyncAuthzIssued(g)
		at, rt := f.recordPair(o, g, false)
		if at == nil || rt == nil {
			f.violate("C04", "C04/exchange-did-not-return-new-pair", "a successful refresh did not return a new access/refresh pair", "access_token + refresh_token", o)
		}
		cls = "refresh:" + op.By + ":ok"
	default:
		// refused
		if t.Status == "live" && live && op.By == "owner" {
			f.Res.note("sanity:legit-refresh-refused")
		}
		// state after refusing a never-used token (foreign presenter, revoked or killed token): not pinned
		f.resync(func(x *MTok) bool { return x.Grant == g.ID })
	}
	return cls
}

func (f *Fam) applyRevoke(op Op) string {
	w := f.W
	t := f.M.tok(op.Ref)
	g := f.M.Grants[t.Grant]
	before := ""
	if !f.quiet {
		before = w.StateKey()
	}
	presented := t.Val
	if op.By == "owner-forged" {
		presented = famForge(t.Val)
	}
	o := w.Revoke(presented, op.Hint, f.authBy(g.Client, op.By))
	goErr := o.RevokeClass() // the endpoint's answer, not the library-level error
	if op.By == "owner-forged" {
		// a string this server never issued (same signature part, other content): an unknown token, answered with
		// success, changing nothing
		cls := "revoke:" + op.By + ":" + t.Status + ":" + goErr
		if !f.quiet && w.StateKey() != before {
			f.violate("C08", "C08/forged-token-revoked-the-grant/"+t.Kind+"/status="+t.Status, "the owner presented a string the server never issued (the signature part of "+t.Name+" with altered content) to the revocation endpoint and stored token state changed", "unknown token: success, nothing changes", o)
		}
		// also while replaying a prefix: should the implementation have revoked something, the model follows it
		f.resync(func(x *MTok) bool { return x.Grant == g.ID })
		return cls
	}
	cls := "revoke:" + op.By + ":" + t.Status + ":" + goErr
	live, nearExp := f.expLive(t)
	unchanged := func(tag string) {
		if !f.quiet && w.StateKey() != before {
			f.violate("C08", "C08/state-changed/"+tag, "a revocation request that must change nothing changed stored state ("+tag+")", "unchanged store", nil)
		}
	}
	switch {
	case op.By == "badsecret":
		if goErr == "" {
			f.violate("C08", "C08/unauthenticated-revocation-accepted", "revocation accepted from a caller that failed client authentication", "invalid_client", o)
		}
		unchanged("unauthenticated-caller")
	case foreignBy(op.By):
		if t.Status == "live" && live {
			if goErr != "unauthorized_client" {
				f.violate("C08", "C08/foreign-client-not-unauthorized_client/by="+op.By+"/hint="+op.Hint+"/got="+goErr, "revocation of a live token by a different client was not refused as unauthorized_client", "unauthorized_client", o)
			}
		}
		unchanged("foreign-client")
	default: // owner
		if t.Status == "live" && (live || nearExp) {
			if goErr != "" {
				if live {
					f.violate("C08", "C08/owner-revocation-refused/hint="+op.Hint+"/got="+goErr, "revocation of a live token by its owner was refused", "success", o)
				}
				f.resync(nil)
			} else {
				t.Status, t.Cause = "revoked", "C08"
				if p := f.M.tok(t.Pair); p != nil && p.Status == "live" {
					p.Status, p.Cause = "revoked", "C08"
				}
				// other tokens of the same grant (earlier generations, authorize-endpoint token): not pinned
				f.resync(func(x *MTok) bool { return x.Grant == g.ID && x != t && x.Name != t.Pair })
			}
		} else if t.Status == "live" {
			// an expired token is an already-invalid token: success, and nothing changes
			if !f.quiet && !nearExp && w.StateKey() != before {
				f.violate("C08", "C08/expired-token-revocation-changed-state/"+t.Kind, "the owner revoked an already expired "+t.Kind+" and stored token state changed (the statement: already-invalid tokens are answered with success without changing anything)", "unchanged store", o)
			}
			f.resync(func(x *MTok) bool { return x.Grant == g.ID })
		} else {
			// already rotated / revoked / killed: success, nothing changes
			if goErr != "" {
				f.violate("C08", "C08/already-invalid-token-not-answered-with-success/status="+t.Status+"/got="+goErr, "revocation of an already-invalid token was not answered with success", "success", o)
			}
			if t.Status != "unknown-dead" {
				unchanged("already-invalid-token/" + t.Status)
			}
		}
	}
	return cls
}

// ---------------------------------------------------------------- sweep

// Sweep introspects every credential ever received and compares with the model.
func (f *Fam) Sweep(after Op) {
	if f.quiet {
		return
	}
	f.inSweep = true
	defer func() { f.inSweep = false }()
	for _, t := range f.M.Toks {
		want, dc := f.expLive(t)
		if dc {
			f.Res.DontCare++
			continue
		}
		if t.Status == "unknown-dead" {
			continue
		}
		act, o := f.W.Active(t.Val)
		f.Res.Evals++
		if act == want {
			if act {
				f.checkPayload(t, o)
			}
			continue
		}
		g := f.M.Grants[t.Grant]
		desc := fmt.Sprintf("%s (%s gen %d of grant %d/%s%s, model status %s) introspects active=%v after %s", t.Name, t.Kind, t.Gen, g.ID, g.Origin, map[bool]string{true: ", issued by authorize endpoint", false: ""}[t.ByAuthz], t.Status, act, after.String())
		if act && !want {
			// still active although it must be dead
			cause := t.Cause
			expired := t.Status == "live"
			if expired {
				cause = "C07"
			}
			fp := fmt.Sprintf("/still-active/%s/status=%s/origin=%s/authz-issued=%v", t.Kind, map[bool]string{true: "expired", false: t.Status}[expired], g.Origin, t.ByAuthz)
			if cause != "" && cause != "C09" && cause != "dontcare" {
				f.violate(cause, cause+fp, desc, "inactive", o.JSON)
			}
			f.violate("C09", "C09"+fp, desc, "inactive", o.JSON)
		} else {
			fp := fmt.Sprintf("/unexpectedly-inactive/%s/origin=%s/authz-issued=%v/after=%s", t.Kind, g.Origin, t.ByAuthz, after.Op)
			// attribute to the clause that says "unaffected"
			lastGrant := -1
			if after.Ref != "" {
				if strings.HasPrefix(after.Ref, "code#") {
					if gg := f.grantByCode(after.Ref); gg != nil {
						lastGrant = gg.ID
					}
				} else if tt := f.M.tok(after.Ref); tt != nil {
					lastGrant = tt.Grant
				}
			}
			if after.Op == "refresh" && lastGrant != t.Grant {
				f.violate("C04", "C04"+fp, desc+" (token of another grant)", "active", o.JSON)
			}
			f.violate("C09", "C09"+fp, desc, "active", o.JSON)
			// keep going with what the implementation says
			t.Status, t.Cause = "unknown-dead", "dontcare"
			f.adopted = append(f.adopted, t.Name)
		}
	}
}

func (f *Fam) checkPayload(t *MTok, o *Obs) {
	g := f.M.Grants[t.Grant]
	if cid := o.Str("client_id"); cid != g.Client {
		f.violate("C09", "C09/payload/client_id", fmt.Sprintf("introspection of %s reports client_id %q, real client %q", t.Name, cid, g.Client), g.Client, o.JSON)
	}
	if g.Subject != "" {
		if sub := o.Str("sub"); sub != g.Subject {
			f.violate("C09", "C09/payload/sub", fmt.Sprintf("introspection of %s reports sub %q, real subject %q", t.Name, sub, g.Subject), g.Subject, o.JSON)
		}
	}
	got := strings.Fields(o.Str("scope"))
	want := append([]string(nil), g.Scopes...)
	sort.Strings(got)
	sort.Strings(want)
	if strings.Join(got, " ") != strings.Join(want, " ") {
		f.violate("C09", "C09/payload/scope", fmt.Sprintf("introspection of %s reports scope %v, granted %v", t.Name, got, want), strings.Join(want, " "), o.JSON)
	}
	wantUse := map[string]string{"at": "access_token", "rt": "refresh_token"}[t.Kind]
	if tu := o.Str("_token_use"); tu != wantUse {
		f.violate("C09", "C09/payload/token_use", fmt.Sprintf("introspection of %s reports token_use %q", t.Name, tu), wantUse, o.JSON)
	}
	if t.Kind == "at" && !t.Exp.IsZero() {
		if e, ok := o.JSON["exp"].(float64); ok {
			d := int64(e) - t.Exp.Unix()
			if d < -1 || d > 1 {
				f.violate("C09", "C09/payload/exp", fmt.Sprintf("introspection of %s reports exp %d, real expiry %d", t.Name, int64(e), t.Exp.Unix()), fmt.Sprint(t.Exp.Unix()), o.JSON)
			}
		}
	}
}

// ---------------------------------------------------------------- search

type famJob struct {
	Spec   FamSpec    `json:"spec"`
	Hist   []Op       `json:"hist"`
	Adopts [][]string `json:"adopts,omitempty"` // per step: tokens the sweep found dead although the model had them live
}
type famSucc struct {
	Op    Op       `json:"op"`
	Key   string   `json:"key"`
	Bad   bool     `json:"bad,omitempty"` // the step violated the property: terminal, not extended
	Adopt []string `json:"adopt,omitempty"`
}
type famJobRes struct {
	WRes
	Succ []famSucc `json:"succ"`
}

func famReplay(s FamSpec, hist []Op, adopts [][]string, res *WRes, checkLast bool) *Fam {
	f := NewFam(s, res)
	f.adoptsIn = adopts
	f.W.Store.NoLog = true
	for i, op := range hist {
		last := i == len(hist)-1
		f.quiet = !(checkLast && last)
		f.lastClass = f.Apply(op)
		if f.quiet && i < len(adopts) {
			for _, n := range adopts[i] {
				if t := f.M.tok(n); t != nil && t.Status == "live" {
					t.Status, t.Cause = "unknown-dead", "dontcare"
				}
			}
		}
		if !f.quiet {
			f.Sweep(op)
			if s.C09 {
				f.c09Grid(op)
			}
		}
	}
	f.quiet = false
	return f
}

var famKnownCache map[string]string

func famKnown() map[string]string {
	if famKnownCache == nil {
		famKnownCache = loadKnown()
	}
	return famKnownCache
}

func famExpand(arg json.RawMessage) (any, error) {
	var j famJob
	if err := json.Unmarshal(arg, &j); err != nil {
		return nil, err
	}
	out := &famJobRes{}
	base := famReplay(j.Spec, j.Hist, j.Adopts, &WRes{}, false)
	ops := base.Enabled()
	for _, op := range ops {
		h := append(append([]Op(nil), j.Hist...), op)
		nv := len(out.Viol)
		stepRes := &WRes{}
		f := famReplay(j.Spec, h, j.Adopts, stepRes, true)
		// a step is terminal when it violated the property — unless every violation it produced is a listed known
		// finding (those are reported once and must not cut the search short)
		bad := false
		for _, v := range stepRes.Viol {
			if _, listed := famKnown()[v.Property+"\x00"+v.Fingerprint]; !listed {
				bad = true
			}
		}
		mergeWRes(&out.WRes, stepRes)
		_ = nv
		out.Trans++
		out.Traces++
		key := shortHash(f.W.StateKey() + "\n" + f.M.Key())
		out.Succ = append(out.Succ, famSucc{Op: op, Key: key, Bad: bad, Adopt: f.adopted})
		cls := f.lastClass
		out.class(cls)
		out.sample(map[string]any{"history": histString(h), "outcome": cls})
	}
	return out, nil
}

func init() {
	registerWorker("fam", famExpand)
	replayFns["fam"] = func(raw json.RawMessage) ([]Violation, error) {
		var j famJob
		if err := json.Unmarshal(raw, &j); err != nil {
			return nil, err
		}
		res := &WRes{}
		// check every step: the artefact's last step is the failing one, earlier ones set the scene
		famReplay(j.Spec, j.Hist, j.Adopts, res, true)
		return res.Viol, nil
	}
}

// famSearch: level-synchronous breadth-first search with global deduplication.
func famSearch(r *Run, specs []FamSpec) {
	type node struct {
		spec   int
		hist   []Op
		adopts [][]string
	}
	seen := map[string]bool{}
	frontier := []node{}
	for i := range specs {
		frontier = append(frontier, node{spec: i})
	}
	maxDepth := 0
	for _, s := range specs {
		if s.Depth > maxDepth {
			maxDepth = s.Depth
		}
	}
	completed := 0
	r.Agg.States += len(specs) // initial states
	for depth := 1; depth <= maxDepth && len(frontier) > 0; depth++ {
		var jobs []any
		var live []node
		for _, n := range frontier {
			if specs[n.spec].Depth < depth {
				continue
			}
			jobs = append(jobs, famJob{Spec: specs[n.spec], Hist: n.hist, Adopts: n.adopts})
			live = append(live, n)
		}
		res := r.Pool.Do("fam", jobs, r.Deadline)
		var next []node
		levelDone := true
		for i, jr := range res {
			if !jr.Done {
				levelDone = false
				continue
			}
			if jr.Err != "" {
				r.HarnessErrs = append(r.HarnessErrs, fmt.Sprintf("fam job %s: %s", histString(live[i].hist), jr.Err))
				continue
			}
			var out famJobRes
			if err := json.Unmarshal(jr.Res, &out); err != nil {
				r.HarnessErrs = append(r.HarnessErrs, err.Error())
				continue
			}
			r.Merge(&out.WRes)
			for _, s := range out.Succ {
				k := fmt.Sprintf("%d/%s", live[i].spec, s.Key)
				if seen[k] {
					continue
				}
				seen[k] = true
				r.Agg.States++
				r.distinct[k] = true
				if s.Bad {
					continue
				}
				next = append(next, node{spec: live[i].spec, hist: append(append([]Op(nil), live[i].hist...), s.Op),
					adopts: append(append([][]string(nil), live[i].adopts...), s.Adopt)})
			}
		}
		if !levelDone {
			r.Exhaustive = false
			break
		}
		completed = depth
		frontier = next
		if len(r.Agg.Viol) > 0 && r.Quick() {
			// shortest counterexamples found; deeper levels only repeat them
		}
	}
	if r.Extra == nil {
		r.Extra = map[string]any{}
	}
	r.Extra["depth_completed"] = completed
	r.Extra["frontier_at_end"] = len(frontier)
	if completed < maxDepth {
		r.Exhaustive = false
	}
}

// famForge: a token string with the genuine signature part and other content (opaque: another random part;
// JWT: another payload). The revocation and lookup paths key on the signature part alone.
func famForge(tok string) string {
	parts := strings.Split(tok, ".")
	switch len(parts) {
	case 2:
		pfx, key, sig := c06Split2(tok)
		if len(key) > 8 {
			alt := []byte(key)
			for i := 0; i < 8; i++ {
				if alt[i] == 'A' {
					alt[i] = 'B'
				} else {
					alt[i] = 'A'
				}
			}
			return pfx + string(alt) + "." + sig
		}
	case 3:
		return parts[0] + "." + b64([]byte(`{"sub":"forged"}`)) + "." + parts[2]
	}
	return tok + "x"
}
