package main

import (
	"crypto/sha256"
	"encoding/hex"
	"encoding/json"
	"fmt"
	"os"
	"path/filepath"
	"sort"
	"strings"
	"time"
)

// Violation is a property violation found on the real code, with a replayable artefact.
type Violation struct {
	Property    string `json:"property"`
	Fingerprint string `json:"fingerprint"` // stable: names the failing call site / history class
	What        string `json:"what"`
	Engine      string `json:"engine"` // replay function name
	Case        any    `json:"case"`   // argument of the replay function
	Expected    string `json:"expected,omitempty"`
	Observed    any    `json:"observed,omitempty"`
}

// WRes is what a worker job returns; the parent aggregates.
type WRes struct {
	Evals    int            `json:"evals"`
	States   int            `json:"states"`
	Trans    int            `json:"trans"`
	Traces   int            `json:"traces"`
	Classes  map[string]int `json:"classes,omitempty"`
	DontCare int            `json:"dont_care,omitempty"`
	Distinct []string       `json:"distinct,omitempty"` // short hashes of distinct non-trivial cases
	Viol     []Violation    `json:"viol,omitempty"`
	Samples  []any          `json:"samples,omitempty"`
	Notes    map[string]int `json:"notes,omitempty"`
	Capped   bool           `json:"capped,omitempty"`
}

func (w *WRes) class(c string) {
	if w.Classes == nil {
		w.Classes = map[string]int{}
	}
	w.Classes[c]++
}
func (w *WRes) note(c string) {
	if w.Notes == nil {
		w.Notes = map[string]int{}
	}
	w.Notes[c]++
}
func (w *WRes) distinct(s string) { w.Distinct = append(w.Distinct, shortHash(s)) }
func (w *WRes) sample(s any) {
	if len(w.Samples) < 3 {
		w.Samples = append(w.Samples, s)
	}
}
func (w *WRes) violate(v Violation) {
	for _, o := range w.Viol {
		if o.Fingerprint == v.Fingerprint {
			return
		}
	}
	w.Viol = append(w.Viol, v)
}

func mergeWRes(dst, w *WRes) {
	dst.Evals += w.Evals
	dst.States += w.States
	dst.Trans += w.Trans
	dst.Traces += w.Traces
	dst.DontCare += w.DontCare
	for k, v := range w.Classes {
		if dst.Classes == nil {
			dst.Classes = map[string]int{}
		}
		dst.Classes[k] += v
	}
	for k, v := range w.Notes {
		if dst.Notes == nil {
			dst.Notes = map[string]int{}
		}
		dst.Notes[k] += v
	}
	dst.Distinct = append(dst.Distinct, w.Distinct...)
	for _, s := range w.Samples {
		dst.sample(s)
	}
	for _, v := range w.Viol {
		dst.violate(v)
	}
}

func shortHash(s string) string {
	h := sha256.Sum256([]byte(s))
	return hex.EncodeToString(h[:8])
}

// Run collects the result of one check invocation.
type Run struct {
	Prop        string
	Tier        string
	Seed        int64
	Level       string
	Start       time.Time
	Deadline    time.Time
	Agg         WRes
	distinct    map[string]bool
	Exhaustive  bool
	Bounds      map[string]any
	Rule        string
	Assumptions []string
	Extra       map[string]any
	HarnessErrs []string
	Pool        *Pool
}

func (r *Run) Quick() bool { return r.Tier != "thorough" }

func (r *Run) Merge(w *WRes) {
	r.Agg.Evals += w.Evals
	r.Agg.States += w.States
	r.Agg.Trans += w.Trans
	r.Agg.Traces += w.Traces
	r.Agg.DontCare += w.DontCare
	if w.Capped {
		r.Agg.Capped = true
	}
	for k, v := range w.Classes {
		if r.Agg.Classes == nil {
			r.Agg.Classes = map[string]int{}
		}
		r.Agg.Classes[k] += v
	}
	for k, v := range w.Notes {
		if r.Agg.Notes == nil {
			r.Agg.Notes = map[string]int{}
		}
		r.Agg.Notes[k] += v
	}
	if r.distinct == nil {
		r.distinct = map[string]bool{}
	}
	for _, d := range w.Distinct {
		r.distinct[d] = true
	}
	for _, s := range w.Samples {
		if len(r.Agg.Samples) < 6 {
			r.Agg.Samples = append(r.Agg.Samples, s)
		}
	}
	for _, v := range w.Viol {
		r.Agg.violate(v)
	}
}

// MergeJobs folds pool results; returns false if some job did not complete.
func (r *Run) MergeJobs(res []JobResult) bool {
	all := true
	for i, jr := range res {
		if !jr.Done {
			all = false
			continue
		}
		if jr.Err != "" {
			r.HarnessErrs = append(r.HarnessErrs, fmt.Sprintf("job %d: %s", i, jr.Err))
			continue
		}
		var w WRes
		if err := json.Unmarshal(jr.Res, &w); err != nil {
			r.HarnessErrs = append(r.HarnessErrs, fmt.Sprintf("job %d: %v", i, err))
			continue
		}
		r.Merge(&w)
	}
	return all
}

type knownFile struct {
	Findings []struct {
		Property    string `json:"property"`
		Fingerprint string `json:"fingerprint"`
		What        string `json:"what"`
	} `json:"findings"`
	Fixed []map[string]string `json:"fixed"`
}

func loadKnown() map[string]string {
	m := map[string]string{}
	b, err := os.ReadFile(filepath.Join(verifDir, "known_findings.json"))
	if err != nil {
		return m
	}
	var k knownFile
	if err := json.Unmarshal(b, &k); err != nil {
		fmt.Fprintln(os.Stderr, "known_findings.json:", err)
		os.Exit(2)
	}
	for _, f := range k.Findings {
		m[f.Property+"\x00"+f.Fingerprint] = f.What
	}
	return m
}

// replayFns re-execute an artefact and return the violations it (still) produces.
var replayFns = map[string]func(c json.RawMessage) ([]Violation, error){}

func fpFile(v Violation) string {
	s := strings.NewReplacer("/", "_", " ", "_", ":", "_").Replace(v.Fingerprint)
	if len(s) > 80 {
		s = s[:80]
	}
	return fmt.Sprintf("%s-%s-%s.json", v.Property, s, shortHash(v.Fingerprint)[:6])
}

func replayViolation(v Violation) (bool, error) {
	fn := replayFns[v.Engine]
	if fn == nil {
		return false, fmt.Errorf("no replay function %q", v.Engine)
	}
	b, _ := json.Marshal(v.Case)
	vs, err := fn(b)
	if err != nil {
		return false, err
	}
	for _, o := range vs {
		if o.Fingerprint == v.Fingerprint {
			return true, nil
		}
	}
	return false, nil
}

// Finish writes the evidence file, prints findings and returns the exit code.
func (r *Run) Finish() int {
	known := loadKnown()
	exit := 0
	var real []Violation
	var knownHit []Violation
	sort.Slice(r.Agg.Viol, func(i, j int) bool { return r.Agg.Viol[i].Fingerprint < r.Agg.Viol[j].Fingerprint })
	for _, v := range r.Agg.Viol {
		if v.Property == "" {
			v.Property = r.Prop
		}
		// believe only what reproduces: 5 identical re-executions from the artefact
		okAll := true
		for i := 0; i < 5; i++ {
			ok, err := replayViolation(v)
			if err != nil || !ok {
				okAll = false
				r.HarnessErrs = append(r.HarnessErrs, fmt.Sprintf("violation %s did not reproduce on re-execution %d: %v", v.Fingerprint, i, err))
				break
			}
		}
		if !okAll {
			continue
		}
		if _, ok := known[v.Property+"\x00"+v.Fingerprint]; ok {
			knownHit = append(knownHit, v)
		} else {
			real = append(real, v)
		}
	}
	for _, v := range knownHit {
		fmt.Printf("KNOWN-FINDING: property=%s %s [%s]\n", v.Property, v.What, v.Fingerprint)
	}
	rpDir := filepath.Join(verifDir, "replays")
	if d := os.Getenv("VERIF_EVIDENCE_DIR"); d != "" {
		rpDir = filepath.Join(d, "replays")
	}
	os.MkdirAll(rpDir, 0o755)
	for _, v := range real {
		path := filepath.Join(rpDir, fpFile(v))
		art := map[string]any{"property": v.Property, "fingerprint": v.Fingerprint, "what": v.What, "engine": v.Engine, "case": v.Case,
			"expected": v.Expected, "observed": v.Observed, "repo_rev": repoRev(), "reruns_identical": 5}
		b, _ := json.MarshalIndent(art, "", " ")
		os.WriteFile(path, b, 0o644)
		fmt.Printf("VIOLATION property=%s replay=%s\n", v.Property, path)
		fmt.Printf("  what: %s\n", v.What)
		exit = 1
	}
	for _, e := range r.HarnessErrs {
		fmt.Fprintln(os.Stderr, "HARNESS-ERROR:", e)
	}
	if len(r.HarnessErrs) > 0 && exit == 0 {
		exit = 3
	}
	wall := time.Since(r.Start).Seconds()
	cov := map[string]any{
		"evaluations":         r.Agg.Evals,
		"distinct_nontrivial": len(r.distinct),
		"rule":                r.Rule,
		"samples":             r.Agg.Samples,
		"exhaustive":          r.Exhaustive && !r.Agg.Capped,
		"bounds":              r.Bounds,
		"outcome_classes":     r.Agg.Classes,
		"dont_care":           r.Agg.DontCare,
		"notes":               capNotes(r.Agg.Notes, 80),
		"known_findings_hit":  len(knownHit),
	}
	if r.Agg.States > 0 {
		cov["states"] = r.Agg.States
		cov["transitions"] = r.Agg.Trans
		cov["traces_validated_against_impl"] = r.Agg.Traces
	}
	for k, v := range r.Extra {
		cov[k] = v
	}
	if len(r.Agg.Samples) == 0 {
		cov["samples"] = []any{"(none)"}
	}
	ev := map[string]any{
		"property_id": r.Prop,
		"tier":        r.Tier,
		"seed":        r.Seed,
		"level":       r.Level,
		"coverage":    cov,
		"assumptions": r.Assumptions,
		"wall_s":      wall,
		"violations":  len(real),
		"repo_rev":    repoRev(),
	}
	b, _ := json.MarshalIndent(ev, "", " ")
	evDir := filepath.Join(verifDir, "evidence")
	if d := os.Getenv("VERIF_EVIDENCE_DIR"); d != "" {
		evDir = d // scratch runs (seed matrix) must not overwrite the evidence of the real tree
	}
	os.MkdirAll(evDir, 0o755)
	if err := os.WriteFile(filepath.Join(evDir, r.Prop+".json"), b, 0o644); err != nil {
		fmt.Fprintln(os.Stderr, err)
		return 2
	}
	var cls any = r.Agg.Classes
	if len(r.Agg.Classes) > 14 {
		cls = fmt.Sprintf("(%d classes, see evidence)", len(r.Agg.Classes))
	}
	var notes any = r.Agg.Notes
	if len(r.Agg.Notes) > 12 {
		notes = fmt.Sprintf("(%d kinds of notes, see evidence)", len(r.Agg.Notes))
	}
	fmt.Printf("%s tier=%s evals=%d states=%d trans=%d distinct=%d dontcare=%d exhaustive=%v classes=%v notes=%v violations=%d known=%d wall=%.1fs\n",
		r.Prop, r.Tier, r.Agg.Evals, r.Agg.States, r.Agg.Trans, len(r.distinct), r.Agg.DontCare, r.Exhaustive && !r.Agg.Capped, cls, notes, len(real), len(knownHit), wall)
	return exit
}

// capNotes keeps the n most frequent note kinds and sums the rest (evidence files stay readable).
func capNotes(m map[string]int, n int) map[string]int {
	if len(m) <= n {
		return m
	}
	keys := make([]string, 0, len(m))
	for k := range m {
		keys = append(keys, k)
	}
	sort.Slice(keys, func(i, j int) bool {
		if m[keys[i]] != m[keys[j]] {
			return m[keys[i]] > m[keys[j]]
		}
		return keys[i] < keys[j]
	})
	out := map[string]int{}
	rest := 0
	for i, k := range keys {
		if i < n {
			out[k] = m[k]
		} else {
			rest += m[k]
		}
	}
	out[fmt.Sprintf("(%d further kinds of notes)", len(keys)-n)] = rest
	return out
}

var repoRevCache string

func repoRev() string {
	if repoRevCache != "" {
		return repoRevCache
	}
	repoRevCache = os.Getenv("VERIF_REPO_REV")
	if repoRevCache == "" {
		repoRevCache = "unknown"
	}
	return repoRevCache
}
