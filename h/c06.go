package main

import (
	"context"
	"crypto/hmac"
	"crypto/rand"
	"crypto/sha256"
	"crypto/sha512"
	"crypto/x509"
	"encoding/base64"
	"encoding/json"
	"fmt"
	"hash"
	"net/url"
	"strings"
	"time"

	"github.com/ory/fosite/compose"
)

// C06 — only server-minted, untampered tokens are accepted (HMAC and JWT); minting draws
// enough entropy and never repeats.

type c06Case struct {
	Hash    string `json:"hash"`    // "", sha256, sha512
	Entropy int    `json:"entropy"` // 0,16,32,33,64
	RTL     int    `json:"rt_lifespan"`
	Part    string `json:"part"` // bitflips | structure | secrets | jwt | mint
	JWTKey  string `json:"jwt_key,omitempty"`
	Mints   int    `json:"mints,omitempty"`
	Chunk   int    `json:"rand_chunk,omitempty"` // mint: the random source returns at most this many bytes per Read
	// replay of one mutant
	Kind   string `json:"kind,omitempty"`
	Mutant string `json:"mutant,omitempty"`
}

const (
	c06S0 = "global-secret-0-0123456789abcdef0123456789abcdef"
	c06S1 = "global-secret-1-abcdef0123456789abcdef0123456789"
	c06S2 = "global-secret-2-zyxwvutsrqponmlkjihgfedcba987654"
)

func c06HashFn(name string) func() hash.Hash {
	switch name {
	case "sha256":
		return sha256.New
	case "sha512":
		return sha512.New
	}
	return sha512.New512_256
}

// refMAC: the documented construction — HMAC over the decoded random part keyed with the
// first 32 bytes of the secret.
func refMAC(hashName string, secret []byte, key []byte) []byte {
	var k [32]byte
	copy(k[:], secret)
	m := hmac.New(c06HashFn(hashName), k[:])
	m.Write(key)
	return m.Sum(nil)
}

var rawURL = base64.RawURLEncoding

type c06Seeds struct {
	w                 *World
	code, at, rt, dev string
	userCode          string
}

func c06Mint(c c06Case) *c06Seeds {
	w := NewWorld(Profile{GlobalSecret: c06S0, HMACHash: c.Hash, TokenEntropy: c.Entropy, RTLifespan: c.RTL})
	s := &c06Seeds{w: w}
	o := w.Token(url.Values{"grant_type": {"password"}, "username": {"peter"}, "password": {"pw-peter"}, "scope": {"offline a"}}, w.AuthFor("A"))
	s.at, s.rt = o.Str("access_token"), o.Str("refresh_token")
	ao := w.Authorize(url.Values{"client_id": {"A"}, "redirect_uri": {"https://A.example/cb"}, "state": {"state-12345678"}, "response_type": {"code"}, "scope": {"offline a"}}, AuthzOpts{})
	s.code = ao.Param("code")
	do := w.DeviceAuth(url.Values{"client_id": {"A"}, "scope": {"offline a"}}, w.AuthFor("A"))
	s.dev = do.Str("device_code")
	s.userCode = do.Str("user_code")
	w.AcceptUserCode(s.userCode, true)
	return s
}

// accept presents candidate x as a credential of the given kind, end to end.
func (s *c06Seeds) accept(kind, x string) (bool, *Obs) {
	w := s.w
	switch kind {
	case "at":
		a, o := w.Active(x)
		if a {
			return true, o
		}
		for _, hint := range []string{"access_token", "refresh_token"} {
			o = w.Introspect(x, hint, "", w.AuthFor("I"), "")
			if a, _ = o.JSON["active"].(bool); a {
				return true, o
			}
		}
		return false, o
	case "rt":
		for _, hint := range []string{"refresh_token", "access_token", ""} {
			o := w.Introspect(x, hint, "", w.AuthFor("I"), "")
			if a, _ := o.JSON["active"].(bool); a {
				return true, o
			}
		}
		o := w.Token(url.Values{"grant_type": {"refresh_token"}, "refresh_token": {x}}, w.AuthFor("A"))
		return issued(o), o
	case "code":
		o := w.Token(url.Values{"grant_type": {"authorization_code"}, "code": {x}, "redirect_uri": {"https://A.example/cb"}}, w.AuthFor("A"))
		return issued(o), o
	case "dev":
		o := w.Token(url.Values{"grant_type": {"urn:ietf:params:oauth:grant-type:device_code"}, "device_code": {x}}, w.AuthFor("A"))
		return issued(o), o
	}
	panic(kind)
}

func c06Split(tok string) (prefix, key, sig string) { return c06Split2(tok) }

// refValid: would the documented check accept this string (under the given secrets)?
// sameBytes reports that the string decodes to exactly the bytes of the genuine token (don't-care zone).
func c06RefValid(c c06Case, secrets []string, cand, genuine string) (valid, sameBytes bool) {
	_, k, sg := c06Split2(cand)
	_, gk, gs := c06Split2(genuine)
	kb, err1 := rawURL.DecodeString(k)
	sb, err2 := rawURL.DecodeString(sg)
	if err1 != nil || err2 != nil || len(kb) == 0 || len(sb) == 0 {
		return false, false
	}
	gkb, _ := rawURL.DecodeString(gk)
	gsb, _ := rawURL.DecodeString(gs)
	sameBytes = string(kb) == string(gkb) && string(sb) == string(gsb)
	for _, s := range secrets {
		if len(s) < 32 {
			continue
		}
		if hmac.Equal(refMAC(c.Hash, []byte(s), kb), sb) {
			return true, sameBytes
		}
	}
	return false, sameBytes
}

func c06Split2(tok string) (prefix, key, sig string) {
	rest := tok
	if strings.HasPrefix(tok, "ory_") && len(tok) > 7 && tok[6] == '_' {
		prefix, rest = tok[:7], tok[7:]
	}
	j := strings.Index(rest, ".")
	if j < 0 {
		return prefix, rest, ""
	}
	return prefix, rest[:j], rest[j+1:]
}

func c06Run(c c06Case, res *WRes) {
	viol := func(fp, what string, kind, mutant string, obs any) {
		cc := c
		cc.Kind, cc.Mutant = kind, mutant
		res.violate(Violation{Property: "C06", Fingerprint: fp, What: what, Engine: "c06", Case: cc, Expected: "rejected", Observed: obs})
	}
	switch c.Part {
	case "mint":
		c06MintCheck(c, res)
		return
	case "jwt":
		if c.JWTKey == "oct" {
			c06JWTOct(c, res)
			return
		}
		c06JWT(c, res)
		return
	}
	s := c06Mint(c)
	if s.at == "" || s.rt == "" || s.code == "" || s.dev == "" {
		res.note("sanity:mint-failed")
		return
	}
	tokens := map[string]string{"at": s.at, "rt": s.rt, "code": s.code, "dev": s.dev}
	kinds := []string{"at", "rt", "code", "dev"}
	consumed := map[string]bool{}
	try := func(kind, cand, mutation string) {
		if cand == tokens[kind] {
			return
		}
		res.Evals++
		ok, o := s.accept(kind, cand)
		valid, same := c06RefValid(c, []string{c06S0}, cand, tokens[kind])
		if c.Kind != "" { // replay mode
			_ = o
		}
		if ok {
			if same {
				res.DontCare++ // decodes to the very bytes of the genuine token
				if kind == "code" || kind == "dev" {
					consumed[kind] = true // a one-time credential was spent through an equivalent spelling
				}
				return
			}
			if !valid {
				viol(fmt.Sprintf("C06/accepted-tampered/%s/%s", kind, mutation), fmt.Sprintf("a %s altered by %s was accepted although its random part does not authenticate against its signature part", kind, mutation), kind, cand, o.JSON)
				return
			}
			viol(fmt.Sprintf("C06/accepted-unminted/%s/%s", kind, mutation), fmt.Sprintf("a %s that the server never minted (%s) was accepted", kind, mutation), kind, cand, o.JSON)
			return
		}
		res.distinct(kind + "|" + cand)
	}
	if c.Kind != "" {
		try(c.Kind, c.Mutant, "replay")
		return
	}
	switch c.Part {
	case "bitflips":
		for _, kind := range kinds {
			pfx, k, sg := c06Split(tokens[kind])
			kb, _ := rawURL.DecodeString(k)
			sb, _ := rawURL.DecodeString(sg)
			for i := 0; i < len(kb)*8; i++ {
				if (kind == "at" || kind == "rt") && i%16 == 0 {
					// a genuine validation right before the forgery (state left behind by a successful check must not help)
					w := s.w
					if kind == "at" {
						w.Active(tokens[kind])
					} else {
						w.Introspect(tokens[kind], "refresh_token", "", w.AuthFor("I"), "")
					}
				}
				m := append([]byte(nil), kb...)
				m[i/8] ^= 1 << (i % 8)
				try(kind, pfx+rawURL.EncodeToString(m)+"."+sg, "bit flip in the random part")
			}
			for i := 0; i < len(sb)*8; i++ {
				m := append([]byte(nil), sb...)
				m[i/8] ^= 1 << (i % 8)
				try(kind, pfx+k+"."+rawURL.EncodeToString(m), "bit flip in the signature part")
			}
		}
	case "structure":
		for _, kind := range kinds {
			tok := tokens[kind]
			pfx, k, sg := c06Split(tok)
			for n := 0; n < len(tok); n++ {
				try(kind, tok[:n], "truncation")
			}
			for n := 1; n < len(k); n += 3 {
				try(kind, pfx+k[n:]+"."+sg, "random part shortened from the left")
			}
			// stored signature with a different random part
			for _, other := range kinds {
				if other == kind {
					continue
				}
				_, ok2, os2 := c06Split(tokens[other])
				try(kind, pfx+ok2+"."+sg, "stored signature with another token's random part")
				try(kind, pfx+k+"."+os2, "own random part with another token's signature")
				try(kind, pfx+ok2+"."+os2, "another kind's token under this prefix")
			}
			fresh := make([]byte, 32)
			for i := range fresh {
				fresh[i] = byte(i*7 + 1)
			}
			try(kind, pfx+rawURL.EncodeToString(fresh)+"."+sg, "stored signature with a fresh random part")
			try(kind, pfx+k+"."+rawURL.EncodeToString(fresh), "own random part with a fresh signature")
			try(kind, pfx+sg+"."+k, "parts swapped")
			try(kind, pfx+k+"."+k, "signature replaced by the random part")
			try(kind, pfx+sg+"."+sg, "random part replaced by the signature")
			try(kind, pfx+k+"."+sg+"."+sg, "three parts")
			try(kind, pfx+k+sg, "separator removed")
			try(kind, pfx+"."+sg, "empty random part")
			try(kind, pfx+k+".", "empty signature")
			for _, p := range []string{"", "ory_at_", "ory_rt_", "ory_ac_", "ory_dc_", "ory_xx_", "garbage_", "ORY_AT_"} {
				try(kind, p+k+"."+sg, "prefix changed to "+p)
			}
			try(kind, pfx+k+"=."+sg, "padding added to the random part")
			try(kind, pfx+k+"."+sg+"=", "padding added to the signature")
			try(kind, pfx+strings.NewReplacer("-", "+", "_", "/").Replace(k)+"."+sg, "standard alphabet random part")
			try(kind, pfx+k+"."+strings.NewReplacer("-", "+", "_", "/").Replace(sg), "standard alphabet signature")
			try(kind, " "+tok, "leading space")
			try(kind, tok+" ", "trailing space")
			try(kind, strings.ToUpper(tok), "upper-cased")
		}
	case "secrets":
		// tokens minted under a foreign secret (same construction, unknown key)
		for _, kind := range kinds {
			pfx, k, _ := c06Split(tokens[kind])
			kb, _ := rawURL.DecodeString(k)
			for _, sec := range []string{c06S1, c06S2, "short-secret", strings.Repeat("\x00", 32), c06S0[:31]} {
				forged := pfx + k + "." + rawURL.EncodeToString(refMAC(c.Hash, []byte(sec), kb))
				try(kind, forged, "re-signed under a foreign secret")
			}
			// different hash function than configured
			for _, h := range []string{"", "sha256", "sha512"} {
				if h == c.Hash {
					continue
				}
				forged := pfx + k + "." + rawURL.EncodeToString(refMAC(h, []byte(c06S0), kb))
				try(kind, forged, "signed with another hash function")
			}
		}
		// rotation: S0 becomes a rotated secret -> still honoured; mutants still rejected
		w := s.w
		scen := []struct {
			name    string
			cur     string
			rotated []string
			s0known bool
		}{
			{"rotated[S0]", c06S1, []string{c06S0}, true},
			{"rotated[S2,S0]", c06S1, []string{c06S2, c06S0}, true},
			{"rotated[S0,S2]", c06S1, []string{c06S0, c06S2}, true},
			{"rotated[S2]", c06S1, []string{c06S2}, false},
			{"rotated[]", c06S1, nil, false},
			{"current-short,rotated[S0]", "short-secret", []string{c06S0}, true},
			{"rotated[short]", c06S1, []string{"short-secret"}, false},
			{"none", "", nil, false},
		}
		for _, sc := range scen {
			w.Cfg.GlobalSecret = []byte(sc.cur)
			w.Cfg.RotatedGlobalSecrets = nil
			for _, r := range sc.rotated {
				w.Cfg.RotatedGlobalSecrets = append(w.Cfg.RotatedGlobalSecrets, []byte(r))
			}
			all := append([]string{sc.cur}, sc.rotated...)
			for _, kind := range []string{"at", "rt"} {
				res.Evals++
				ok, o := func() (bool, *Obs) {
					if kind == "at" {
						return w.Active(tokens[kind])
					}
					o := w.Introspect(tokens[kind], "refresh_token", "", w.AuthFor("I"), "")
					a, _ := o.JSON["active"].(bool)
					return a, o
				}()
				if ok && !sc.s0known {
					viol("C06/accepted-under-unknown-secret/"+kind+"/"+sc.name, fmt.Sprintf("a %s minted under a secret that is neither current nor rotated (%s) was accepted", kind, sc.name), kind, tokens[kind], o.JSON)
				}
				if !ok && sc.s0known && sc.name != "current-short,rotated[S0]" {
					res.note("sanity:rotated-secret-not-honoured:" + sc.name)
				}
				res.class(fmt.Sprintf("rotation:%s:%s:%v", sc.name, kind, ok))
				// forged under a short secret that IS configured: must still be refused
				pfx, k, _ := c06Split(tokens[kind])
				kb, _ := rawURL.DecodeString(k)
				for _, sec := range all {
					if len(sec) >= 32 || sec == "" {
						continue
					}
					forged := pfx + k + "." + rawURL.EncodeToString(refMAC(c.Hash, []byte(sec), kb))
					res.Evals++
					var a bool
					var fo *Obs
					if kind == "at" {
						a, fo = w.Active(forged)
					} else {
						fo = w.Introspect(forged, "refresh_token", "", w.AuthFor("I"), "")
						a, _ = fo.JSON["active"].(bool)
					}
					if a {
						viol("C06/accepted-under-short-secret/"+kind+"/"+sc.name, "a token authenticated only by a configured secret shorter than 32 bytes was accepted", kind, forged, fo.JSON)
					}
				}
			}
			// minting under a short current secret must fail
			if len(sc.cur) < 32 {
				res.Evals++
				o := w.Token(url.Values{"grant_type": {"client_credentials"}, "scope": {"a"}}, w.AuthFor("A"))
				if issued(o) {
					viol("C06/minted-under-short-secret/"+sc.name, "a token was minted although the current secret is shorter than 32 bytes", "at", "", o.JSON)
				}
			}
		}
		w.Cfg.GlobalSecret = []byte(c06S0)
		w.Cfg.RotatedGlobalSecrets = nil
	}
	// sanity: the genuine credentials are still honoured after all the failed presentations
	for _, kind := range kinds {
		if consumed[kind] {
			res.note("sanity:genuine-accepted:" + kind)
			continue
		}
		ok, _ := s.accept(kind, tokens[kind])
		if ok {
			res.note("sanity:genuine-accepted:" + kind)
		} else {
			res.note("sanity:genuine-REFUSED:" + kind)
		}
	}
}

func c06JWT(c c06Case, res *WRes) {
	w := NewWorld(Profile{JWTAccess: true, IDKey: c.JWTKey})
	o := w.Token(url.Values{"grant_type": {"password"}, "username": {"peter"}, "password": {"pw-peter"}, "scope": {"offline a"}}, w.AuthFor("A"))
	tok := o.Str("access_token")
	o2 := w.Token(url.Values{"grant_type": {"client_credentials"}, "scope": {"a"}}, w.AuthFor("B"))
	tok2 := o2.Str("access_token")
	if strings.Count(tok, ".") != 2 || tok2 == "" {
		res.note("sanity:jwt-mint-failed")
		return
	}
	if a, _ := w.Active(tok); !a {
		res.note("sanity:genuine-jwt-REFUSED")
		return
	}
	res.note("sanity:genuine-accepted:jwt")
	// freshly minted JWT access tokens never repeat, also within one second and along a refresh chain
	// (under a deterministic signature scheme only the jti tells two such tokens apart)
	{
		seen := map[string]string{tok: "password grant", tok2: "client_credentials #1"}
		note := func(t, what string) {
			if t == "" {
				return
			}
			res.Evals++
			if prev, dup := seen[t]; dup {
				res.violate(Violation{Property: "C06", Fingerprint: "C06/jwt-mint-repeated/key=" + c.JWTKey, What: fmt.Sprintf("two JWT access tokens minted within one second are identical (%s and %s)", prev, what), Engine: "c06", Case: c, Expected: "distinct tokens", Observed: t})
			}
			seen[t] = what
		}
		rt := o.Str("refresh_token")
		for i := 1; i <= 3 && rt != ""; i++ {
			ro := w.Token(url.Values{"grant_type": {"refresh_token"}, "refresh_token": {rt}}, w.AuthFor("A"))
			note(ro.Str("access_token"), fmt.Sprintf("refresh #%d", i))
			rt = ro.Str("refresh_token")
		}
		for i := 2; i <= 3; i++ {
			note(w.Token(url.Values{"grant_type": {"client_credentials"}, "scope": {"a"}}, w.AuthFor("B")).Str("access_token"), fmt.Sprintf("client_credentials #%d", i))
		}
	}
	parts := strings.Split(tok, ".")
	hdr, claims, _ := decodeJWT(tok)
	pubDER, _ := x509.MarshalPKIXPublicKey(w.IDKey.Public())
	try := func(cand, mutation string) {
		if cand == tok {
			return
		}
		res.Evals++
		if c.Mutant != "" && cand != c.Mutant {
			return
		}
		a, io := w.Active(cand)
		if a {
			if strings.Join(strings.Fields(cand), "") == tok {
				res.DontCare++ // only white space differs; the JOSE parser strips it, the bytes verified are the genuine ones
				return
			}
			// the signature part may decode to the same bytes
			p := strings.Split(cand, ".")
			if len(p) == 3 && p[0] == parts[0] && p[1] == parts[1] {
				sb, e1 := rawURL.DecodeString(p[2])
				gb, _ := rawURL.DecodeString(parts[2])
				if e1 == nil && string(sb) == string(gb) {
					res.DontCare++
					return
				}
			}
			cc := c
			cc.Mutant = cand
			res.violate(Violation{Property: "C06", Fingerprint: "C06/jwt-accepted/" + mutation, What: "a JWT access token altered by \"" + mutation + "\" introspects active", Engine: "c06", Case: cc, Expected: "inactive", Observed: io.JSON})
			return
		}
		res.distinct("jwt|" + cand)
	}
	reclaims := func(edit func(m map[string]any)) string {
		m := map[string]any{}
		for k, v := range claims {
			m[k] = v
		}
		edit(m)
		b, _ := json.Marshal(m)
		return rawURL.EncodeToString(b)
	}
	rehdr := func(edit func(m map[string]any)) string {
		m := map[string]any{}
		for k, v := range hdr {
			m[k] = v
		}
		edit(m)
		b, _ := json.Marshal(m)
		return rawURL.EncodeToString(b)
	}
	// algorithm confusion
	for _, alg := range []string{"none", "None", "NONE", "nOnE"} {
		h := rehdr(func(m map[string]any) { m["alg"] = alg })
		try(h+"."+parts[1]+".", "alg="+alg+" without signature")
		try(h+"."+parts[1]+"."+parts[2], "alg="+alg+" keeping the signature")
		try(h+"."+parts[1], "alg="+alg+" two segments")
	}
	for _, alg := range []string{"HS256", "HS384", "HS512"} {
		for kn, key := range map[string][]byte{"public-key-der": pubDER, "global-secret": []byte(w.Cfg.GlobalSecret), "empty": {}} {
			try(signJWT(key, alg, "", claims, nil), alg+" keyed with "+kn)
		}
	}
	for _, fk := range []struct{ name, alg string }{{"rsa2", "RS256"}, {"rsa2", "PS256"}, {"ec256b", "ES256"}, {"ec384", "ES384"}, {"ec521", "ES512"}, {"rsa2", "RS512"}} {
		if fk.name == c.JWTKey {
			continue
		}
		try(signJWT(loadKey(fk.name), fk.alg, "", claims, nil), "re-signed with foreign key "+fk.alg)
	}
	// payload edits under the original signature
	edits := map[string]func(m map[string]any){
		"exp extended":    func(m map[string]any) { m["exp"] = float64(w.Now().Add(1000 * time.Hour).Unix()) },
		"scope widened":   func(m map[string]any) { m["scp"] = []string{"a", "admin"} },
		"subject changed": func(m map[string]any) { m["sub"] = "admin" },
		"client changed":  func(m map[string]any) { m["client_id"] = "B" },
		"jti changed":     func(m map[string]any) { m["jti"] = "other" },
	}
	for name, e := range edits {
		try(parts[0]+"."+reclaims(e)+"."+parts[2], "payload edit ("+name+") under the original signature")
	}
	try(rehdr(func(m map[string]any) { m["kid"] = "other" })+"."+parts[1]+"."+parts[2], "header edit under the original signature")
	// signature manipulation
	sb, _ := rawURL.DecodeString(parts[2])
	step := 1
	if len(sb) > 128 {
		step = 5
	}
	for i := 0; i < len(sb)*8; i += step {
		m := append([]byte(nil), sb...)
		m[i/8] ^= 1 << (i % 8)
		try(parts[0]+"."+parts[1]+"."+rawURL.EncodeToString(m), "bit flip in the signature")
	}
	for n := 0; n < len(parts[2]); n += 2 {
		try(parts[0]+"."+parts[1]+"."+parts[2][:n], "signature truncated")
	}
	p2 := strings.Split(tok2, ".")
	try(parts[0]+"."+parts[1]+"."+p2[2], "signature of another token")
	try(p2[0]+"."+p2[1]+"."+parts[2], "payload of another token under this signature")
	try(parts[0]+"."+parts[1]+"."+parts[2]+"."+parts[2], "four segments")
	try(parts[0]+"."+parts[1], "two segments")
	try(parts[1]+"."+parts[0]+"."+parts[2], "header and payload swapped")
	try(tok+"=", "padding appended")
	try(" "+tok, "leading space")
}

// c06MintCheck: every mint draws >= max(32, entropy) bytes from the random source, embeds
// exactly the drawn bytes, and consecutive mints never repeat.
// c06JWTOct: the configured "signing key" is symmetric. A JWT access token is accepted only with an asymmetric
// algorithm, so nothing minted by the server and nothing forged with the shared key may introspect active.
func c06JWTOct(c c06Case, res *WRes) {
	w := NewWorld(Profile{JWTAccess: true, IDKey: "oct"})
	viol := func(fp, what string, obs any) {
		res.violate(Violation{Property: "C06", Fingerprint: fp, What: what, Engine: "c06", Case: c, Expected: "rejected", Observed: obs})
	}
	o := w.Token(url.Values{"grant_type": {"client_credentials"}, "scope": {"a"}}, w.AuthFor("B"))
	res.Evals++
	res.class("jwt-oct:mint:" + o.Class())
	if tok := o.Str("access_token"); tok != "" {
		hdr, _, _ := decodeJWT(tok)
		res.class(fmt.Sprintf("jwt-oct:minted-with-alg:%v", hdr["alg"]))
		if a, io := w.Active(tok); a {
			viol("C06/jwt-accepted/symmetric-signing-key/server-minted", fmt.Sprintf("with a symmetric (oct) signing key the server minted a JWT access token (header %v) and accepts it", hdr), io.JSON)
		}
	}
	// forged with the shared key; claims modelled on what the strategy would mint
	now := w.Now()
	for _, alg := range []string{"HS256", "HS384", "HS512"} {
		for _, kid := range []string{"kid-oct", ""} {
			claims := map[string]any{"iss": IssuerURL, "sub": "B", "client_id": "B", "aud": []string{}, "scp": []string{"a"}, "scope": "a", "exp": now.Add(time.Hour).Unix(), "iat": now.Unix(), "nbf": now.Unix(), "jti": "forged-" + alg}
			tok := signJWT([]byte(OctKey), alg, kid, claims, nil)
			res.Evals++
			a, io := w.Active(tok)
			res.distinct("jwt-oct|" + alg + "|" + kid)
			if a {
				viol("C06/jwt-accepted/symmetric-signing-key/forged-"+alg, "a JWT signed with the symmetric algorithm "+alg+" under the configured (oct) key introspects active", io.JSON)
			}
		}
	}
	res.note("jwt-oct-checked")
}

func c06MintCheck(c c06Case, res *WRes) {
	w := NewWorld(Profile{GlobalSecret: c06S0, HMACHash: c.Hash, TokenEntropy: c.Entropy})
	w.Rand.Chunk = c.Chunk
	rec := &recReader{inner: w.Rand}
	rand.Reader = rec
	defer func() { rand.Reader = w.Rand }()
	strat := compose.NewOAuth2HMACStrategy(w.Cfg)
	dev := compose.NewDeviceStrategy(w.Cfg)
	ctx := context.Background()
	want := 32
	if c.Entropy > want {
		want = c.Entropy
	}
	seen := map[string]string{}
	viol := func(fp, what string, obs any) {
		res.violate(Violation{Property: "C06", Fingerprint: fp, What: what, Engine: "c06", Case: c, Expected: "fresh, >= configured entropy", Observed: obs})
	}
	gens := map[string]func() (string, string, error){
		"access_token":  func() (string, string, error) { return strat.GenerateAccessToken(ctx, nil) },
		"refresh_token": func() (string, string, error) { return strat.GenerateRefreshToken(ctx, nil) },
		"code":          func() (string, string, error) { return strat.GenerateAuthorizeCode(ctx, nil) },
		"device_code":   func() (string, string, error) { return dev.GenerateDeviceCode(ctx) },
	}
	for i := 0; i < c.Mints; i++ {
		for _, kind := range []string{"access_token", "refresh_token", "code", "device_code"} {
			rec.last = nil
			tok, sig, err := gens[kind]()
			res.Evals++
			if err != nil {
				res.note("sanity:mint-error")
				continue
			}
			if len(rec.last) < want {
				viol("C06/mint-drew-too-little-entropy/"+kind, fmt.Sprintf("minting a %s drew %d random bytes, configured minimum %d", kind, len(rec.last), want), len(rec.last))
			}
			_, k, sg := c06Split(tok)
			kb, _ := rawURL.DecodeString(k)
			if string(kb) != string(rec.last) {
				viol("C06/mint-does-not-embed-drawn-bytes/"+kind, fmt.Sprintf("the random part of a minted %s (%d bytes) is not the %d bytes drawn from the random source", kind, len(kb), len(rec.last)), len(kb))
			}
			if sg != sig {
				viol("C06/mint-signature-mismatch/"+kind, "the signature returned for storage differs from the token's signature part", sig)
			}
			if prev, dup := seen[tok]; dup {
				viol("C06/mint-repeated/"+kind, "two mints returned the same value ("+prev+")", tok)
			}
			seen[tok] = kind
			if prev, dup := seen["sig:"+sig]; dup {
				viol("C06/mint-repeated-signature/"+kind, "two mints share a signature ("+prev+")", sig)
			}
			seen["sig:"+sig] = kind
			res.distinct(tok)
		}
	}
	// PAR request URIs through the endpoint
	for i := 0; i < c.Mints/20+2; i++ {
		rec.last = nil
		o := w.PAR(url.Values{"client_id": {"A"}, "redirect_uri": {"https://A.example/cb"}, "state": {"state-12345678"}, "response_type": {"code"}, "scope": {"a"}}, w.AuthFor("A"))
		ru := o.Str("request_uri")
		res.Evals++
		if ru == "" {
			res.note("sanity:par-refused")
			continue
		}
		if len(rec.last) < 32 {
			viol("C06/mint-drew-too-little-entropy/request_uri", fmt.Sprintf("a request_uri was minted from %d random bytes", len(rec.last)), len(rec.last))
		}
		if _, dup := seen[ru]; dup {
			viol("C06/mint-repeated/request_uri", "two pushes returned the same request_uri", ru)
		}
		seen[ru] = "request_uri"
		res.distinct(ru)
	}
	res.sample(map[string]any{"case": c, "distinct_values": len(seen)})
}

type recReader struct {
	inner *DetReader
	last  []byte
}

func (r *recReader) Read(p []byte) (int, error) {
	n, err := r.inner.Read(p)
	r.last = append(r.last, p[:n]...)
	return n, err
}

func init() {
	registerWorker("c06", func(arg json.RawMessage) (any, error) {
		var c c06Case
		if err := json.Unmarshal(arg, &c); err != nil {
			return nil, err
		}
		res := &WRes{}
		c06Run(c, res)
		res.sample(c)
		return res, nil
	})
	replayFns["c06"] = func(raw json.RawMessage) ([]Violation, error) {
		var c c06Case
		if err := json.Unmarshal(raw, &c); err != nil {
			return nil, err
		}
		res := &WRes{}
		if c.Part != "jwt" && c.Part != "mint" && c.Kind != "" && c.Mutant != "" {
			// re-run the whole part: mutants of one part are cheap and the fingerprint is per mutation class
			c.Kind, c.Mutant = "", ""
		}
		if c.Part == "jwt" {
			c.Mutant = ""
		}
		c06Run(c, res)
		return res.Viol, nil
	}
	registerCheck("C06", "exploration", 120*time.Second, 20*time.Minute, func(r *Run) {
		var jobs []any
		entropies := []int{0, 16, 32, 64}
		mints := 500
		if !r.Quick() {
			entropies = []int{0, 16, 32, 33, 64}
			mints = 10000
		}
		for _, h := range []string{"", "sha256", "sha512"} {
			for _, e := range entropies {
				for _, rtl := range []int{0, -1} {
					for _, part := range []string{"bitflips", "structure", "secrets"} {
						jobs = append(jobs, c06Case{Hash: h, Entropy: e, RTL: rtl, Part: part})
					}
				}
				jobs = append(jobs, c06Case{Hash: h, Entropy: e, Part: "mint", Mints: mints})
				for _, ch := range []int{1, 8, 31} {
					jobs = append(jobs, c06Case{Hash: h, Entropy: e, Part: "mint", Mints: mints / 10, Chunk: ch})
				}
			}
		}
		for _, k := range []string{"ec256a", "rsa1", "ec384", "ec521", "oct"} {
			jobs = append(jobs, c06Case{Part: "jwt", JWTKey: k})
		}
		r.Bounds = map[string]any{"hash_functions": []string{"sha512/256 (default)", "sha256", "sha512"}, "token_entropy": entropies, "refresh_lifespans": []string{"30d", "unlimited(-1)"},
			"kinds": []string{"access token", "refresh token", "authorization code", "device code"}, "mutations": "every single-bit flip of both decoded parts; every truncation; part swaps across all 4 tokens; prefixes; re-encodings; foreign/short secrets; other hash; 8 secret-rotation scenarios",
			"jwt": "alg none x4 spellings, HS256/384/512 keyed with public key / global secret / empty, 6 foreign keys, 5 payload edits, header edit, every signature bit (every 5th for RSA), truncations, segment games; signing keys ec256a rsa1 ec384 ec521", "mints_per_kind": mints, "random_source": "full reads, and short reads of at most 1 / 8 / 31 bytes per call (mints/10 each)", "symmetric_signing_key": "oct JWK configured as signing key: server mint + 6 forged HS256/384/512 tokens must all be inactive"}
		r.Rule = "each mutant of each genuine credential is presented end to end (introspection, refresh, redemption, device poll); accepted => its decoded random part must authenticate against its decoded signature part under a configured >=32-byte secret (reference HMAC); distinct = distinct rejected mutant strings + distinct minted values"
		r.Assumptions = []string{"strings that decode to exactly the bytes of the genuine token (unused base64 trailing bits) are don't-care", "statistical quality of crypto/rand is assumed; minting is checked structurally through a counting deterministic reader"}
		res := r.Pool.Do("c06", jobs, r.Deadline)
		if !r.MergeJobs(res) {
			r.Exhaustive = false
		}
		for _, k := range []string{"at", "rt", "code", "dev", "jwt"} {
			if r.Agg.Notes["sanity:genuine-accepted:"+k] == 0 {
				r.HarnessErrs = append(r.HarnessErrs, "vacuous: genuine "+k+" never accepted")
			}
		}
		for n := range r.Agg.Notes {
			if strings.Contains(n, "REFUSED") {
				r.HarnessErrs = append(r.HarnessErrs, "genuine credential refused after failed presentations: "+n)
			}
		}
	})
}
