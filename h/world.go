package main

import (
	"context"
	"crypto"
	"crypto/ecdsa"
	"crypto/rand"
	"crypto/rsa"
	"crypto/sha256"
	"crypto/sha512"
	"crypto/subtle"
	"crypto/x509"
	"encoding/binary"
	"encoding/pem"
	"fmt"
	"github.com/ory/fosite/i18n"
	"hash"
	"io"
	"os"
	"path/filepath"
	"time"

	"github.com/go-jose/go-jose/v3"
	"github.com/google/uuid"
	"github.com/mohae/deepcopy"

	"github.com/ory/fosite"
	"github.com/ory/fosite/compose"
	"github.com/ory/fosite/handler/oauth2"
	"github.com/ory/fosite/handler/openid"
	"github.com/ory/fosite/handler/rfc8628"
	"github.com/ory/fosite/storage"
	"github.com/ory/fosite/token/jwt"
	"github.com/ory/fosite/verifhook"
)

var verifDir = func() string {
	if d := os.Getenv("VERIF_DIR"); d != "" {
		return d
	}
	return "/verif"
}()

// OctKey is the symmetric key of the "oct" signing-key profile.
const OctKey = "symmetric-signing-key-0123456789abcdef0123456789abcdef"

// ---------------------------------------------------------------- deterministic randomness

// DetReader: block n = SHA-256(seed || n). Outputs are distinct and reproducible; every
// read is counted.
type DetReader struct {
	seed  uint64
	ctr   uint64
	buf   []byte
	Reads int
	Bytes int
	// Yield, when set, is called before every read (scheduling point for SCHED).
	Yield func()
	// Chunk > 0: every Read returns at most Chunk bytes (a legal io.Reader short read, as an HSM- or
	// pipe-backed random source may give)
	Chunk int
}

func (d *DetReader) Read(p []byte) (int, error) {
	if d.Yield != nil {
		d.Yield()
	}
	d.Reads++
	if d.Chunk > 0 && len(p) > d.Chunk {
		p = p[:d.Chunk]
	}
	d.Bytes += len(p)
	for i := range p {
		if len(d.buf) == 0 {
			var in [16]byte
			binary.BigEndian.PutUint64(in[:8], d.seed)
			binary.BigEndian.PutUint64(in[8:], d.ctr)
			d.ctr++
			s := sha256.Sum256(in[:])
			d.buf = s[:]
		}
		p[i] = d.buf[0]
		d.buf = d.buf[1:]
	}
	return len(p), nil
}

var realRand = rand.Reader

// ---------------------------------------------------------------- keys

var keyCache = map[string]crypto.Signer{}

func loadKey(name string) crypto.Signer {
	if k, ok := keyCache[name]; ok {
		return k
	}
	b, err := os.ReadFile(filepath.Join(verifDir, "testdata", name+".pem"))
	if err != nil {
		panic(err)
	}
	blk, _ := pem.Decode(b)
	k, err := x509.ParsePKCS8PrivateKey(blk.Bytes)
	if err != nil {
		panic(err)
	}
	keyCache[name] = k.(crypto.Signer)
	return keyCache[name]
}

func rsaKey(name string) *rsa.PrivateKey  { return loadKey(name).(*rsa.PrivateKey) }
func ecKey(name string) *ecdsa.PrivateKey { return loadKey(name).(*ecdsa.PrivateKey) }

// ---------------------------------------------------------------- session

// Sess is usable by every handler: OpenID (claims/headers) and JWT access tokens.
type Sess struct {
	*openid.DefaultSession
	JWTClaims *jwt.JWTClaims
	JWTHeader *jwt.Headers
}

func NewSess(subject string) *Sess {
	return &Sess{
		DefaultSession: &openid.DefaultSession{
			Claims:  &jwt.IDTokenClaims{Subject: subject, Issuer: "https://issuer.example"},
			Headers: &jwt.Headers{},
			Subject: subject,
		},
		JWTClaims: &jwt.JWTClaims{Subject: subject, Issuer: "https://issuer.example"},
		JWTHeader: &jwt.Headers{},
	}
}

func (s *Sess) GetJWTClaims() jwt.JWTClaimsContainer {
	if s.JWTClaims == nil {
		s.JWTClaims = &jwt.JWTClaims{}
	}
	return s.JWTClaims
}
func (s *Sess) GetJWTHeader() *jwt.Headers {
	if s.JWTHeader == nil {
		s.JWTHeader = &jwt.Headers{}
	}
	return s.JWTHeader
}
func (s *Sess) Clone() fosite.Session {
	if s == nil {
		return nil
	}
	return deepcopy.Copy(s).(fosite.Session)
}
func (s *Sess) SetSubject(sub string) {
	s.DefaultSession.SetSubject(sub)
	if s.Claims != nil {
		s.Claims.Subject = sub
	}
	if s.JWTClaims != nil {
		s.JWTClaims.Subject = sub
	}
}

// ---------------------------------------------------------------- hasher

// PlainHasher stores secrets as "plain:<secret>" and compares in constant time. Used where
// client authentication is not the subject of a check (bcrypt dominates run time otherwise).
type PlainHasher struct{}

func (PlainHasher) Compare(ctx context.Context, hash, data []byte) error {
	want := append([]byte("plain:"), data...)
	if subtle.ConstantTimeCompare(hash, want) == 1 {
		return nil
	}
	return fmt.Errorf("secret mismatch")
}
func (PlainHasher) Hash(ctx context.Context, data []byte) ([]byte, error) {
	return append([]byte("plain:"), data...), nil
}

// ---------------------------------------------------------------- world

var Epoch = time.Date(2031, 3, 1, 0, 0, 0, 0, time.UTC)

// Profile selects the configuration of a World.
type Profile struct {
	JWTAccess bool `json:"jwt_access,omitempty"`
	// NoPARFactory: the provider is composed without the pushed-authorization endpoint handler (the instance of a
	// split deployment that serves the authorization endpoint only; pushes are taken by another instance)
	NoPARFactory bool `json:"no_par_factory,omitempty"`
	// AppRevocationHandlerFirst: the integrator registers a revocation handler of its own (cache eviction, audit) in
	// front of the library's; it knows no token and answers nil
	AppRevocationHandlerFirst bool `json:"app_revocation_handler_first,omitempty"`
	// I18N: a message catalog (English + Spanish) is configured, error responses are localised
	I18N bool `json:"i18n,omitempty"`
	// StatelessJWTIntrospectionFirst registers the stateless JWT validator in front of the stateful one
	StatelessJWTIntrospectionFirst bool `json:"stateless_jwt_introspection_first,omitempty"`
	// StatelessJWTIntrospectionOnly: a resource-server style deployment, JWT access tokens judged by signature and claims only
	StatelessJWTIntrospectionOnly bool     `json:"stateless_jwt_introspection_only,omitempty"`
	RefreshScopes                 []string `json:"refresh_scopes"` // nil => fosite default? we always set explicitly
	RefreshScopesUnset            bool     `json:"refresh_scopes_unset,omitempty"`
	EnforcePKCE                   bool     `json:"enforce_pkce,omitempty"`
	EnforcePKCEPublic             bool     `json:"enforce_pkce_public,omitempty"`
	PKCEPlain                     bool     `json:"pkce_plain,omitempty"`
	Tx                            bool     `json:"tx,omitempty"`
	ContractDevice                bool     `json:"contract_device,omitempty"`
	Bcrypt                        bool     `json:"bcrypt,omitempty"`
	ScopeStrategy                 string   `json:"scope_strategy,omitempty"` // "", exact, wildcard, hierarchic
	AudStrategy                   string   `json:"aud_strategy,omitempty"`   // "", default, exact
	DisableRTValidation           bool     `json:"disable_rt_validation,omitempty"`
	PAREnforced                   bool     `json:"par_enforced,omitempty"`
	PARPrefix                     string   `json:"par_prefix,omitempty"`
	ATLifespan                    int      `json:"at_lifespan,omitempty"` // seconds; 0 => 3600
	RTLifespan                    int      `json:"rt_lifespan,omitempty"` // seconds; 0 => 30 days; -1 unlimited
	CodeLifespan                  int      `json:"code_lifespan,omitempty"`
	IDKey                         string   `json:"id_key,omitempty"`         // key file for ID tokens / JWT ATs (default ec256a)
	IDAlg                         string   `json:"id_alg,omitempty"`         // when set the key is handed to fosite as a JWK with this algorithm
	Session                       string   `json:"session,omitempty"`        // session implementation handed to the library: "" (harness Sess), openid, jwt, default
	DefaultConfig                 bool     `json:"default_config,omitempty"` // leave every lazily defaulted Config field unset
	Debug                         bool     `json:"debug,omitempty"`
	LegacyErrors                  bool     `json:"legacy_errors,omitempty"`
	JWTBearerSkipAuth             bool     `json:"jwt_bearer_skip_auth,omitempty"`
	JTIOptional                   bool     `json:"jti_optional,omitempty"`
	IATOptional                   bool     `json:"iat_optional,omitempty"`
	MinEntropy                    int      `json:"min_entropy,omitempty"`
	GlobalSecret                  string   `json:"global_secret,omitempty"`
	RotatedSecrets                []string `json:"rotated_secrets,omitempty"`
	TokenEntropy                  int      `json:"token_entropy,omitempty"`
	HMACHash                      string   `json:"hmac_hash,omitempty"` // "", sha256, sha512
	Seed                          uint64   `json:"seed,omitempty"`
}

type World struct {
	P         Profile
	Cfg       *fosite.Config
	Mem       *storage.MemoryStore
	Store     *ProxyStore
	Tx        *TxStore
	Prov      fosite.OAuth2Provider
	now       time.Time
	cancelReq context.CancelFunc
	KeyFault  error // when set, the signing-key provider answers with this error
	Rand      *DetReader
	Names     *Namer
	Secrets   map[string]string // client id -> plaintext secret
	IDKey     crypto.Signer
	Dev       *rfc8628.DefaultDeviceStrategy
	HMAC      *oauth2.HMACSHAStrategy
}

func (w *World) Now() time.Time          { return w.now }
func (w *World) Advance(d time.Duration) { w.now = w.now.Add(d) }

const (
	TokenURL  = "https://issuer.example/token"
	IssuerURL = "https://issuer.example"
)

var allGrants = []string{"authorization_code", "implicit", "refresh_token", "password", "client_credentials", "urn:ietf:params:oauth:grant-type:device_code", "urn:ietf:params:oauth:grant-type:jwt-bearer"}
var allResponseTypes = []string{"code", "token", "id_token", "id_token token", "code id_token", "code token", "code id_token token"}

func (w *World) hashSecret(s string) []byte {
	var hs fosite.Hasher = w.Cfg.ClientSecretsHasher
	if hs == nil {
		hs = &fosite.BCrypt{Config: &fosite.Config{HashCost: 4}}
	}
	h, err := hs.Hash(context.Background(), []byte(s))
	if err != nil {
		panic(err)
	}
	return h
}

// AddClient registers a DefaultClient-based client; mutate the returned value freely before use.
func (w *World) AddClient(id, secret string, public bool) *fosite.DefaultClient {
	c := &fosite.DefaultClient{
		ID:            id,
		Public:        public,
		RedirectURIs:  []string{"https://" + id + ".example/cb", "https://" + id + ".example/cb2"},
		GrantTypes:    append([]string(nil), allGrants...),
		ResponseTypes: append([]string(nil), allResponseTypes...),
		Scopes:        []string{"openid", "offline", "offline_access", "a", "b.c", "photos"},
		Audience:      []string{"https://api.example/a", "https://other.example"},
	}
	if secret != "" {
		c.Secret = w.hashSecret(secret)
		w.Secrets[id] = secret
	}
	w.Mem.Clients[id] = c
	return c
}

func NewWorld(p Profile) *World {
	w := &World{P: p, now: Epoch, Names: NewNamer(), Secrets: map[string]string{}}
	w.Rand = &DetReader{seed: p.Seed}
	rand.Reader = w.Rand
	uuid.SetRand(w.Rand)
	verifhook.NowFn = func() time.Time { return w.now }

	secret := p.GlobalSecret
	if secret == "" {
		secret = "global-secret-0-0123456789abcdef0123456789abcdef"
	}
	cfg := &fosite.Config{
		GlobalSecret:                         []byte(secret),
		AccessTokenLifespan:                  time.Hour,
		RefreshTokenLifespan:                 30 * 24 * time.Hour,
		AuthorizeCodeLifespan:                10 * time.Minute,
		IDTokenLifespan:                      time.Hour,
		IDTokenIssuer:                        IssuerURL,
		AccessTokenIssuer:                    IssuerURL,
		TokenURL:                             TokenURL,
		EnforcePKCE:                          p.EnforcePKCE,
		EnforcePKCEForPublicClients:          p.EnforcePKCEPublic,
		EnablePKCEPlainChallengeMethod:       p.PKCEPlain,
		DisableRefreshTokenValidation:        p.DisableRTValidation,
		IsPushedAuthorizeEnforced:            p.PAREnforced,
		PushedAuthorizeRequestURIPrefix:      p.PARPrefix,
		SendDebugMessagesToClients:           p.Debug,
		UseLegacyErrorFormat:                 p.LegacyErrors,
		GrantTypeJWTBearerCanSkipClientAuth:  p.JWTBearerSkipAuth,
		GrantTypeJWTBearerIDOptional:         p.JTIOptional,
		GrantTypeJWTBearerIssuedDateOptional: p.IATOptional,
		GrantTypeJWTBearerMaxDuration:        time.Hour,
		MinParameterEntropy:                  p.MinEntropy,
		TokenEntropy:                         p.TokenEntropy,
		DeviceVerificationURL:                IssuerURL + "/device",
		ScopeStrategy:                        fosite.HierarchicScopeStrategy,
		AudienceMatchingStrategy:             fosite.DefaultAudienceMatchingStrategy,
	}
	for _, r := range p.RotatedSecrets {
		cfg.RotatedGlobalSecrets = append(cfg.RotatedGlobalSecrets, []byte(r))
	}
	switch p.HMACHash {
	case "sha256":
		cfg.HMACHasher = func() hash.Hash { return sha256.New() }
	case "sha512":
		cfg.HMACHasher = sha512New
	}
	if !p.RefreshScopesUnset {
		cfg.RefreshTokenScopes = p.RefreshScopes
		if cfg.RefreshTokenScopes == nil {
			cfg.RefreshTokenScopes = []string{}
		}
	}
	if p.ATLifespan != 0 {
		cfg.AccessTokenLifespan = time.Duration(p.ATLifespan) * time.Second
	}
	if p.RTLifespan != 0 {
		cfg.RefreshTokenLifespan = time.Duration(p.RTLifespan) * time.Second
	}
	if p.CodeLifespan != 0 {
		cfg.AuthorizeCodeLifespan = time.Duration(p.CodeLifespan) * time.Second
	}
	switch p.ScopeStrategy {
	case "exact":
		cfg.ScopeStrategy = fosite.ExactScopeStrategy
	case "wildcard":
		cfg.ScopeStrategy = fosite.WildcardScopeStrategy
	case "hierarchic", "":
	}
	if p.AudStrategy == "exact" {
		cfg.AudienceMatchingStrategy = fosite.ExactAudienceMatchingStrategy
	}
	if p.Bcrypt {
		cfg.ClientSecretsHasher = &fosite.BCrypt{Config: &fosite.Config{HashCost: 4}}
	} else {
		cfg.ClientSecretsHasher = PlainHasher{}
	}
	if p.DefaultConfig {
		cfg.ScopeStrategy = nil
		cfg.AudienceMatchingStrategy = nil
		cfg.ClientSecretsHasher = nil
		cfg.JWKSFetcherStrategy = nil
		cfg.HashCost = 4
	}
	if p.I18N {
		cfg.MessageCatalog = i18n.NewDefaultMessageCatalog([]*i18n.DefaultLocaleBundle{
			{LangTag: "en", Messages: []*i18n.DefaultMessage{{ID: "badRequestMethod", FormattedMessage: "HTTP method is '%s', expected 'POST'."}}},
			{LangTag: "es", Messages: []*i18n.DefaultMessage{{ID: "badRequestMethod", FormattedMessage: "El método HTTP es '%s', esperado 'POST'."}, {ID: "The requested scope is invalid, unknown, or malformed.", FormattedMessage: "El ámbito solicitado no es válido."}}},
			{LangTag: "de", Messages: []*i18n.DefaultMessage{{ID: "The resource owner or authorization server denied the request.", FormattedMessage: "Die Anfrage wurde abgelehnt."}}},
		})
	}
	w.Cfg = cfg
	w.Mem = storage.NewMemoryStore()
	w.Store = NewProxyStore(w.Mem)
	w.Store.ContractDevice = p.ContractDevice
	w.Store.After = w.nameCall
	var st interface{} = w.Store
	if p.Tx {
		w.Tx = &TxStore{ProxyStore: w.Store}
		w.Store.tx = w.Tx
		st = w.Tx
	}
	idk := p.IDKey
	if idk == "" {
		idk = "ec256a"
	}
	var signKey interface{}
	if idk == "oct" {
		// a symmetric JSON Web Key as the "signing key": nothing may be minted or accepted with it (C06)
		signKey = &jose.JSONWebKey{Key: []byte(OctKey), Algorithm: "HS256", KeyID: "kid-oct", Use: "sig"}
	} else {
		w.IDKey = loadKey(idk)
		signKey = w.IDKey
	}
	alg := p.IDAlg
	if alg == "" {
		switch idk {
		case "ec384":
			alg = "ES384"
		case "ec521":
			alg = "ES512"
		}
	}
	if alg != "" && idk != "oct" {
		signKey = &jose.JSONWebKey{Key: w.IDKey, Algorithm: alg, KeyID: "kid-" + idk, Use: "sig"}
	}
	keyGetter := func(context.Context) (interface{}, error) {
		if w.KeyFault != nil {
			return nil, w.KeyFault // the key provider (KMS, file, HSM) fails
		}
		return signKey, nil
	}
	hm := compose.NewOAuth2HMACStrategy(cfg)
	w.HMAC = hm
	var core interface{} = hm
	strat := &compose.CommonStrategy{
		CoreStrategy:               hm,
		RFC8628CodeStrategy:        compose.NewDeviceStrategy(cfg),
		OpenIDConnectTokenStrategy: compose.NewOpenIDConnectStrategy(keyGetter, cfg),
		Signer:                     &jwt.DefaultSigner{GetPrivateKey: keyGetter},
	}
	if p.JWTAccess {
		strat.CoreStrategy = compose.NewOAuth2JWTStrategy(keyGetter, hm, cfg)
	}
	_ = core
	introspection := []compose.Factory{compose.OAuth2TokenIntrospectionFactory}
	if p.StatelessJWTIntrospectionFirst {
		// a permissive (signature-only) validator registered in front of the stateful one: every validator that knows
		// the token must accept it
		introspection = []compose.Factory{compose.OAuth2StatelessJWTIntrospectionFactory, compose.OAuth2TokenIntrospectionFactory}
	}
	if p.StatelessJWTIntrospectionOnly {
		introspection = []compose.Factory{compose.OAuth2StatelessJWTIntrospectionFactory}
	}
	factories := []compose.Factory{
		compose.OAuth2AuthorizeExplicitFactory,
		compose.OAuth2AuthorizeImplicitFactory,
		compose.OAuth2ClientCredentialsGrantFactory,
		compose.OAuth2RefreshTokenGrantFactory,
		compose.OAuth2ResourceOwnerPasswordCredentialsFactory,
		compose.RFC7523AssertionGrantFactory,
		compose.RFC8628DeviceFactory,
		compose.RFC8628DeviceAuthorizationTokenFactory,
		compose.OpenIDConnectExplicitFactory,
		compose.OpenIDConnectImplicitFactory,
		compose.OpenIDConnectHybridFactory,
		compose.OpenIDConnectRefreshFactory,
		compose.OpenIDConnectDeviceFactory,
	}
	factories = append(factories, introspection...)
	factories = append(factories, compose.OAuth2TokenRevocationFactory, compose.OAuth2PKCEFactory)
	if !p.NoPARFactory {
		factories = append(factories, compose.PushedAuthorizeHandlerFactory)
	}
	w.Prov = compose.Compose(cfg, st, strat, factories...)
	if p.AppRevocationHandlerFirst {
		cfg.RevocationHandlers = append(fosite.RevocationHandlers{appRevocationHook{}}, cfg.RevocationHandlers...)
	}
	w.Dev = compose.NewDeviceStrategy(cfg)
	// default cast
	w.AddClient("A", "secret-A", false)
	w.AddClient("B", "secret-B", false)
	w.AddClient("P", "", true)
	w.AddClient("I", "secret-I", false)       // inspector: only introspects
	w.AddClient("a", "secret-a-lower", false) // id differs from "A" only in letter case
	w.AddClient("p", "", true)
	w.Mem.Users["peter"] = storage.MemoryUserRelation{Username: "peter", Password: "pw-peter"}
	return w
}

var noNameCalls = map[string]bool{"GetClient": true, "Authenticate": true, "GetPublicKey": true, "GetPublicKeys": true, "GetPublicKeyScopes": true,
	"ClientAssertionJWTValid": true, "SetClientAssertionJWT": true, "IsJWTUsed": true, "MarkJWTUsedForTime": true}

func (w *World) nameCall(c *Call) {
	if noNameCalls[c.Name] {
		return
	}
	switch c.Name {
	case "RevokeRefreshToken", "RevokeAccessToken":
		w.Names.Name("rid", c.Keys[0])
		return
	case "RotateRefreshToken":
		w.Names.Name("rid", c.Keys[0])
		w.Names.Name("k", c.Keys[1])
		return
	}
	for _, k := range c.Keys {
		w.Names.Name("k", k)
	}
	if c.ReqID != "" {
		w.Names.Name("rid", c.ReqID)
	}
}

// StateKey is the dedup key of explicit-state search: full store contents (renamed) + clock.
func (w *World) StateKey() string {
	return fmt.Sprintf("t=%d\n%s", int64(w.now.Sub(Epoch)/time.Millisecond), w.Store.Dump(w.Names, Epoch))
}

var _ io.Reader = (*DetReader)(nil)

func sha512New() hash.Hash { return sha512.New() }

// AcceptUserCode plays the resource owner at the verification URI: the integrator looks the
// request up by user-code signature and records the decision (MemoryStore has no update
// method; the stored request is shared by pointer).
func (w *World) AcceptUserCode(userCode string, accept bool) bool {
	sig, err := w.Dev.UserCodeSignature(context.Background(), userCode)
	if err != nil {
		return false
	}
	req, ok := w.Mem.DeviceAuths[sig]
	if !ok {
		return false
	}
	if accept {
		req.SetUserCodeState(fosite.UserCodeAccepted)
		if s, ok := req.GetSession().(interface{ SetSubject(string) }); ok {
			s.SetSubject("device-user")
		}
		if s, ok := req.GetSession().(interface{ IDTokenClaims() *jwt.IDTokenClaims }); ok && s.IDTokenClaims().Subject == "" {
			s.IDTokenClaims().Subject = "device-user" // openid.DefaultSession.SetSubject does not touch the claims
		}
	} else {
		req.SetUserCodeState(fosite.UserCodeRejected)
	}
	return true
}

// NewSession returns the session object the integrator hands to the library, of the
// implementation selected by the profile.
func (w *World) NewSession(subject string) fosite.Session {
	switch w.P.Session {
	case "openid":
		return &openid.DefaultSession{Claims: &jwt.IDTokenClaims{Subject: subject, Issuer: IssuerURL}, Headers: &jwt.Headers{}, Subject: subject}
	case "jwt":
		return &oauth2.JWTSession{JWTClaims: &jwt.JWTClaims{Subject: subject, Issuer: IssuerURL}, JWTHeader: &jwt.Headers{}, Subject: subject}
	case "default":
		return &fosite.DefaultSession{Subject: subject}
	}
	return NewSess(subject)
}

// appRevocationHook: an application-side revocation handler (evicts a cache entry, writes an audit line); it has
// nothing to revoke itself.
type appRevocationHook struct{}

func (appRevocationHook) RevokeToken(ctx context.Context, token string, tokenType fosite.TokenType, client fosite.Client) error {
	return nil
}
