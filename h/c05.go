package main

import (
	"encoding/json"
	"fmt"
	"net/url"
	"sort"
	"strings"
	"time"

	"github.com/ory/fosite"
)

// C05 — refreshing never widens a grant and never crosses clients.

type c05Case struct {
	Origin  string `json:"origin"`  // code | oidc | password | device | hyb-idt
	Granted string `json:"granted"` // space separated granted scopes
	Aud     bool   `json:"aud"`     // grant carries audience https://api.example/a
	Partial bool   `json:"partial"` // more was requested (scope photos, audience https://other.example) than the resource owner granted
	Replace bool   `json:"replace"`
	// LostBefore: the client registration loses the refresh_token grant (record replaced) between authorization and
	// redemption of the code / device code
	LostBefore bool   `json:"grant_lost_before_redemption,omitempty"` // the registration edit replaces the stored client record instead of mutating it
	Param      string `json:"param"`                                  // none | scope-admin | scope-wider | audience-other | scope-narrower
	Presenter  string `json:"presenter"`                              // owner | other
	Edit       string `json:"edit"`                                   // registration change after issuance
	RScopes    string `json:"rscopes"`                                // none | default | custom
	Strategy   string `json:"strategy"`                               // exact | wildcard | hierarchic
	HasGrant   bool   `json:"has_grant"`                              // client registered for refresh_token at issuance
	Chain      int    `json:"chain"`                                  // refresh this many times first (legitimately)
}

var (
	c05Origins = []string{"code", "oidc", "hyb-idt", "password", "device"}
	c05Granted = []string{"a", "a offline", "a b.c offline", "a rt", "b.c offline_access", "ab.c offline"}
	c05Params  = []string{"none", "scope-admin", "scope-wider", "audience-other", "scope-narrower"}
	c05Edits   = []string{"none", "rm-a", "narrow-b", "rm-aud", "rm-refresh-grant", "rm-offline", "rm-ab", "rm-all-aud", "aud-case-variant"}
	c05RScopes = []string{"none", "default", "custom"}
	c05Strats  = []string{"exact", "wildcard", "hierarchic"}
)

func c05ClientScopes(strategy string) []string {
	switch strategy {
	case "exact":
		return []string{"openid", "offline", "offline_access", "rt", "a", "b.c", "photos", "ab.c"}
	case "wildcard":
		return []string{"openid", "offline", "offline_access", "rt", "a", "b.*", "photos", "ab.*"}
	}
	return []string{"openid", "offline", "offline_access", "rt", "a", "b", "photos", "ab"}
}

func c05Run(c c05Case, res *WRes) {
	p := Profile{ScopeStrategy: c.Strategy}
	switch c.RScopes {
	case "none":
		p.RefreshScopes = []string{}
	case "default":
		p.RefreshScopesUnset = true
	case "custom":
		p.RefreshScopes = []string{"rt"}
	}
	w := NewWorld(p)
	cl := w.AddClient("C", "secret-C", false)
	cl.Scopes = c05ClientScopes(c.Strategy)
	if !c.HasGrant {
		var g []string
		for _, x := range cl.GrantTypes {
			if x != "refresh_token" {
				g = append(g, x)
			}
		}
		cl.GrantTypes = g
	}
	ob := w.AddClient("B", "secret-B", false)
	ob.Scopes = c05ClientScopes(c.Strategy)
	viol := func(fp, what, exp string, obs any) {
		res.violate(Violation{Property: "C05", Fingerprint: fp, What: what, Engine: "c05", Case: c, Expected: exp, Observed: obs})
	}
	granted := strings.Fields(c.Granted)
	scope := c.Granted
	if c.Origin == "oidc" || c.Origin == "hyb-idt" {
		scope = "openid " + scope
		granted = append([]string{"openid"}, granted...)
	}
	aud := ""
	if c.Aud {
		aud = "https://api.example/a"
	}
	var o *Obs
	sub := "user-1"
	loseGrant := func() {
		if !c.LostBefore {
			return
		}
		cp := *cl
		cp.GrantTypes = without(append([]string(nil), cl.GrantTypes...), "refresh_token")
		cl = &cp
		w.Mem.Clients["C"] = cl
	}
	switch c.Origin {
	case "code", "oidc", "hyb-idt":
		params := url.Values{"client_id": {"C"}, "redirect_uri": {"https://C.example/cb"}, "state": {"state-12345678"}, "response_type": {"code"}, "scope": {scope}, "nonce": {"nonce-12345678"}}
		if c.Origin == "hyb-idt" {
			params.Set("response_type", "code id_token")
		}
		if aud != "" {
			params.Set("audience", aud)
		}
		opts := AuthzOpts{Subject: sub}
		if c.Partial {
			params.Set("scope", scope+" photos")
			if aud != "" {
				params.Set("audience", aud+" https://other.example")
			}
			opts.GrantScopes = func(req []string) []string { return without(req, "photos") }
			opts.GrantAud = func(req []string) []string { return without(req, "https://other.example") }
		}
		ao := w.Authorize(params, opts)
		if ao.Param("code") == "" {
			res.note("sanity:authorize-refused:" + ao.Class())
			return
		}
		loseGrant()
		o = w.Token(url.Values{"grant_type": {"authorization_code"}, "code": {ao.Param("code")}, "redirect_uri": {"https://C.example/cb"}}, w.AuthFor("C"))
	case "password":
		f := url.Values{"grant_type": {"password"}, "username": {"peter"}, "password": {"pw-peter"}, "scope": {scope}}
		if aud != "" {
			f.Set("audience", aud)
		}
		if c.Partial {
			// the application grants this user nothing of what the client asked for (a guest account)
			o = w.TokenWith(f, w.AuthFor("C"), TokenOpts{GrantAll: true, GrantScopes: func([]string) []string { return nil }})
			granted = nil
		} else {
			o = w.Token(f, w.AuthFor("C"))
		}
		sub = ""
	case "device":
		f := url.Values{"scope": {scope}, "client_id": {"C"}}
		if aud != "" {
			f.Set("audience", aud)
		}
		do := w.DeviceAuth(f, w.AuthFor("C"))
		if do.Str("device_code") == "" {
			res.note("sanity:device-auth-refused:" + do.Class())
			return
		}
		w.AcceptUserCode(do.Str("user_code"), true)
		loseGrant()
		o = w.Token(url.Values{"grant_type": {"urn:ietf:params:oauth:grant-type:device_code"}, "device_code": {do.Str("device_code")}}, w.AuthFor("C"))
		sub = "device-user"
	}
	res.Trans++
	if o.Str("access_token") == "" {
		res.note("sanity:issuance-refused:" + c.Origin + ":" + o.Class())
		return
	}
	rt := o.Str("refresh_token")
	// clause: a refresh token is only ever issued when ...
	var rscopes []string
	switch c.RScopes {
	case "default":
		rscopes = []string{"offline", "offline_access"}
	case "custom":
		rscopes = []string{"rt"}
	}
	hasRScope := len(rscopes) == 0
	for _, g := range granted {
		for _, r := range rscopes {
			if g == r {
				hasRScope = true
			}
		}
	}
	res.class(fmt.Sprintf("issue:%s:rt=%v", c.Origin, rt != ""))
	if rt != "" {
		if !hasRScope {
			viol("C05/refresh-token-issued-without-refresh-scope/origin="+c.Origin+"/rscopes="+c.RScopes, fmt.Sprintf("a refresh token was issued although the grant %v contains none of the configured refresh scopes %v", granted, rscopes), "no refresh_token", o.JSON)
		}
		if c.LostBefore {
			viol("C05/refresh-token-issued-to-client-no-longer-registered-for-refresh/origin="+c.Origin, "a refresh token was issued although the client registration had lost the refresh_token grant before the code was redeemed", "no refresh_token", o.JSON)
		}
		if !c.HasGrant && c.Origin != "password" {
			viol("C05/refresh-token-issued-to-client-without-refresh-grant/origin="+c.Origin, "a refresh token was issued to a client not registered for the refresh_token grant", "no refresh_token", o.JSON)
		}
	}
	if rt == "" || c.LostBefore {
		return
	}
	// legitimate chain first
	for i := 0; i < c.Chain; i++ {
		n := w.Token(url.Values{"grant_type": {"refresh_token"}, "refresh_token": {rt}}, w.AuthFor("C"))
		res.Trans++
		if n.Str("refresh_token") == "" {
			res.note("sanity:chain-refresh-refused")
			return
		}
		rt = n.Str("refresh_token")
	}
	// post-issuance registration change
	if c.Replace {
		cp := *cl
		cp.Scopes = append([]string(nil), cl.Scopes...)
		cp.Audience = append([]string(nil), cl.Audience...)
		cp.GrantTypes = append([]string(nil), cl.GrantTypes...)
		cl = &cp
		w.Mem.Clients["C"] = cl
	}
	switch c.Edit {
	case "rm-a":
		cl.Scopes = without(cl.Scopes, "a")
	case "narrow-b":
		cl.Scopes = without(without(without(cl.Scopes, "b"), "b.*"), "b.c")
		cl.Scopes = append(cl.Scopes, "b.x")
	case "rm-aud":
		cl.Audience = []string{"https://other.example"}
	case "aud-case-variant":
		// the registration is re-pointed to an audience that differs from the granted one in the case of its path
		cl.Audience = []string{"https://api.example/A"}
	case "rm-all-aud":
		// the registration no longer allows any audience at all
		cl.Audience = []string{}
	case "rm-refresh-grant":
		cl.GrantTypes = without(cl.GrantTypes, "refresh_token")
	case "rm-offline":
		cl.Scopes = without(without(cl.Scopes, "offline"), "offline_access")
	case "rm-ab":
		// the look-alike "a" (a string prefix of "ab.c", not a segment prefix) stays registered
		cl.Scopes = without(without(without(cl.Scopes, "ab"), "ab.*"), "ab.c")
	}
	form := url.Values{"grant_type": {"refresh_token"}, "refresh_token": {rt}}
	switch c.Param {
	case "scope-admin":
		form.Set("scope", "admin")
	case "scope-wider":
		form.Set("scope", c.Granted+" photos openid b.c")
	case "audience-other":
		form.Set("audience", "https://other.example")
	case "scope-narrower":
		form.Set("scope", "a")
	}
	presenter := "C"
	switch c.Presenter {
	case "other":
		presenter = "B"
	case "other-public":
		presenter = "P"
	}
	n := w.Token(form, w.AuthFor(presenter))
	res.Trans++
	honoured := issued(n)
	// reference: may it be honoured?
	covers := true
	dcAny := false
	for _, g := range granted {
		ok, dc := refScope(c.Strategy, cl.Scopes, g)
		if dc {
			dcAny = true
		}
		if !ok {
			covers = false
		}
	}
	audOK := true
	if c.Aud {
		audOK, _ = refAudience("default", cl.Audience, []string{"https://api.example/a"})
	}
	hasGrantNow := fosite.Arguments(cl.GrantTypes).Has("refresh_token")
	may := c.Presenter == "owner" && covers && audOK && hasGrantNow
	res.class(fmt.Sprintf("refresh:%s/%s:%s", c.Presenter, c.Edit, n.Class()))
	if dcAny {
		res.DontCare++
		return
	}
	if honoured && !may {
		why := "presenter=" + c.Presenter
		if c.Presenter == "owner" {
			switch {
			case !hasGrantNow:
				why = "client-lacks-refresh-grant"
			case !covers:
				why = "client-no-longer-covers-granted-scope"
			case !audOK:
				why = "client-no-longer-covers-granted-audience"
			}
		}
		viol("C05/refresh-honoured/"+why+"/strategy="+c.Strategy, fmt.Sprintf("refresh honoured although it must be refused (%s); granted=%v client scopes=%v", why, granted, cl.Scopes), "refusal", n.JSON)
		return
	}
	if !honoured {
		if may {
			res.note("sanity:legit-refresh-refused:" + n.Class())
		}
		return
	}
	res.note("honoured")
	// same subject / scopes / audience
	for kind, tok := range map[string]string{"access_token": n.Str("access_token"), "refresh_token": n.Str("refresh_token")} {
		_, io := w.Active(tok)
		gs := strings.Fields(io.Str("scope"))
		sort.Strings(gs)
		want := append([]string(nil), granted...)
		sort.Strings(want)
		if strings.Join(gs, " ") != strings.Join(want, " ") {
			viol("C05/refreshed-"+kind+"-scope-changed/param="+c.Param, fmt.Sprintf("after refresh the %s carries scope %v, original grant %v (request parameter %s)", kind, gs, want, c.Param), strings.Join(want, " "), io.JSON)
		}
		a, _ := io.JSON["aud"].([]any)
		wantAud := 0
		if c.Aud {
			wantAud = 1
		}
		if len(a) != wantAud || (wantAud == 1 && a[0] != "https://api.example/a") {
			viol("C05/refreshed-"+kind+"-audience-changed/param="+c.Param, fmt.Sprintf("after refresh the %s carries audience %v, original grant audience present=%v", kind, a, c.Aud), "original audience", io.JSON)
		}
		if sub != "" && io.Str("sub") != sub {
			viol("C05/refreshed-"+kind+"-subject-changed", fmt.Sprintf("after refresh the %s carries subject %q, original %q", kind, io.Str("sub"), sub), sub, io.JSON)
		}
		if io.Str("client_id") != "C" {
			viol("C05/refreshed-"+kind+"-client-changed", fmt.Sprintf("after refresh the %s carries client %q", kind, io.Str("client_id")), "C", io.JSON)
		}
	}
	if rs := strings.Fields(n.Str("scope")); len(rs) > 0 {
		sort.Strings(rs)
		want := append([]string(nil), granted...)
		sort.Strings(want)
		if strings.Join(rs, " ") != strings.Join(want, " ") {
			viol("C05/refresh-response-scope-changed/param="+c.Param, fmt.Sprintf("refresh response advertises scope %v, original grant %v", rs, want), strings.Join(want, " "), n.JSON)
		}
	}
}

func without(xs []string, x string) []string {
	var o []string
	for _, y := range xs {
		if y != x {
			o = append(o, y)
		}
	}
	return o
}

type c05Job struct {
	Origin, RScopes, Strategy string
	Chains                    []int
}

func init() {
	registerWorker("c05", func(arg json.RawMessage) (any, error) {
		var j c05Job
		if err := json.Unmarshal(arg, &j); err != nil {
			return nil, err
		}
		res := &WRes{}
		for _, gr := range c05Granted {
			for _, aud := range []bool{false, true} {
				for _, pa := range c05Params {
					for _, pr := range []string{"owner", "other", "other-public"} {
						for _, ed := range c05Edits {
							for _, hg := range []bool{true, false} {
								for _, ch := range j.Chains {
									for _, variant := range []int{0, 1, 2, 3} {
										c := c05Case{Origin: j.Origin, Granted: gr, Aud: aud, Param: pa, Presenter: pr, Edit: ed, RScopes: j.RScopes, Strategy: j.Strategy, HasGrant: hg, Chain: ch, Partial: variant == 1, Replace: variant == 2, LostBefore: variant == 3}
										if variant == 3 && (j.Origin == "password" || !hg || ed != "none" || pa != "none" || pr != "owner" || ch != 0) {
											continue // one case per (origin, granted, audience, config): only issuance is judged
										}
										if variant == 1 && j.Origin == "device" {
											continue // partial consent exists at the authorization endpoint (and, as "nothing granted", in the password grant)
										}
										if variant == 2 && ed == "none" {
											continue
										}
										n := len(res.Viol)
										c05Run(c, res)
										res.Evals++
										res.States++
										res.Traces++
										res.distinct(fmt.Sprintf("%+v", c))
										if len(res.Viol) == n {
											res.sample(c)
										}
									}
								}
							}
						}
					}
				}
			}
		}
		return res, nil
	})
	replayFns["c05"] = func(raw json.RawMessage) ([]Violation, error) {
		var c c05Case
		if err := json.Unmarshal(raw, &c); err != nil {
			return nil, err
		}
		res := &WRes{}
		c05Run(c, res)
		return res.Viol, nil
	}
	registerCheck("C05", "exploration", 120*time.Second, 20*time.Minute, func(r *Run) {
		chains := []int{0, 1}
		if !r.Quick() {
			chains = []int{0, 1, 2, 3}
		}
		var jobs []any
		for _, or := range c05Origins {
			for _, rs := range c05RScopes {
				for _, st := range c05Strats {
					jobs = append(jobs, c05Job{Origin: or, RScopes: rs, Strategy: st, Chains: chains})
				}
			}
		}
		r.Bounds = map[string]any{"origins": c05Origins, "granted": c05Granted, "audience": []bool{false, true}, "refresh_params": c05Params, "presenters": []string{"owner", "other confidential client", "other public client"}, "registration_edits": c05Edits,
			"refresh_scope_configs": c05RScopes, "strategies": c05Strats, "client_has_refresh_grant_at_issuance": []bool{true, false}, "prior_chain_lengths": chains, "variants": []string{"plain", "partial consent (more requested than granted)", "registration replaced instead of mutated"}}
		r.Rule = "full product of the listed dimensions; each case runs issuance -> (legitimate chain) -> registration edit -> refresh attempt -> introspection of the new pair on a fresh provider"
		r.Assumptions = []string{"scope coverage is judged by an independent implementation of the three strategies (refstrat.go); audience by the documented prefix rule"}
		res := r.Pool.Do("c05", jobs, r.Deadline)
		if !r.MergeJobs(res) {
			r.Exhaustive = false
		}
		if r.Agg.Notes["honoured"] == 0 {
			r.HarnessErrs = append(r.HarnessErrs, "vacuous: no refresh was honoured")
		}
	})
}
