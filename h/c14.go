package main

import (
	"context"
	"crypto/sha256"
	"crypto/sha512"
	"encoding/json"
	"fmt"
	"hash"
	"net/url"
	"strings"
	"time"

	"github.com/ory/fosite"
)

// C14 — ID Tokens are bound to the right client, user, nonce and tokens.

type c14Case struct {
	Flow     string `json:"flow"`      // code | implicit-idt | implicit-idt-tok | hyb-idt | hyb-tok | hyb-all | refresh | device
	Key      string `json:"key"`       // ec256a | rsa1 | ec384 | ec521 | rsa1/RS384 | rsa1/PS256
	Nonce    string `json:"nonce"`     // "-" | value
	AuthTime int    `json:"auth_time"` // seconds relative to requested_at
	MaxAge   string `json:"max_age"`
	Prompt   string `json:"prompt"`
	Hint     string `json:"hint"`   // none | same | other | expired-same
	Preset   string `json:"preset"` // none | future | past
	Extra    string `json:"extra"`  // none | override-reserved | preset-audience | empty-subject | no-openid
	Chain    int    `json:"chain"`
}

func c14Alg(key string) (file, alg string) {
	switch key {
	case "ec256a":
		return "ec256a", "ES256"
	case "rsa1":
		return "rsa1", "RS256"
	case "ec384":
		return "ec384", "ES384"
	case "ec521":
		return "ec521", "ES512"
	case "rsa1/RS384":
		return "rsa1", "RS384"
	case "rsa1/PS256":
		return "rsa1", "PS256"
	case "rsa1/RS512":
		return "rsa1", "RS512"
	}
	panic(key)
}

func c14Hash(alg, tok string) string {
	var h hash.Hash = sha256.New()
	switch alg[2:] {
	case "384":
		h = sha512.New384()
	case "512":
		h = sha512.New()
	}
	h.Write([]byte(tok))
	s := h.Sum(nil)
	return b64(s[:len(s)/2])
}

const c14IDL = 3600

func c14Run(c c14Case, res *WRes) {
	file, alg := c14Alg(c.Key)
	p := Profile{IDKey: file}
	if alg != "ES256" && alg != "RS256" {
		p.IDAlg = alg
	}
	w := NewWorld(p)
	viol := func(fp, what, exp string, obs any) {
		res.violate(Violation{Property: "C14", Fingerprint: fp, What: what, Engine: "c14", Case: c, Expected: exp, Observed: obs})
	}
	const sub = "user-14"
	reqAt := w.Now().Truncate(time.Second)
	mkSess := func() *Sess {
		s := NewSess(sub)
		s.Claims.RequestedAt = reqAt
		s.Claims.AuthTime = reqAt.Add(time.Duration(c.AuthTime) * time.Second)
		s.Headers.Add("alg", alg)
		switch c.Preset {
		case "future":
			s.Claims.ExpiresAt = w.Now().Add(2 * time.Hour)
		case "past":
			s.Claims.ExpiresAt = w.Now().Add(-time.Hour)
		}
		switch c.Extra {
		case "override-reserved":
			s.Claims.Extra = map[string]interface{}{"sub": "evil", "aud": []string{"evil"}, "iss": "https://evil.example", "nonce": "evil-nonce", "exp": 99999999999, "at_hash": "evil", "c_hash": "evil", "custom": "fine"}
		case "preset-audience":
			s.Claims.Audience = []string{"https://resource.example"}
		case "session-issuer":
			// a multi-tenant server: the session names the tenant's issuer, which is not the configured default
			s.Claims.Issuer = "https://tenant-7.issuer.example"
		case "empty-subject":
			s.Claims.Subject = ""
			s.Subject = ""
		}
		return s
	}
	scope := "openid offline a"
	if c.Extra == "no-openid" {
		scope = "offline a"
	}
	// id_token_hint
	hint := ""
	switch c.Hint {
	case "same", "other", "expired-same":
		hs := sub
		if c.Hint == "other" {
			hs = "somebody-else"
		}
		exp := w.Now().Add(time.Hour).Unix()
		if c.Hint == "expired-same" {
			exp = w.Now().Add(-time.Hour).Unix()
		}
		hint = signJWT(w.IDKey, alg, "", map[string]any{"iss": IssuerURL, "sub": hs, "aud": []string{"A"}, "exp": exp, "iat": w.Now().Add(-2 * time.Hour).Unix()}, nil)
	}
	params := url.Values{"client_id": {"A"}, "redirect_uri": {"https://A.example/cb"}, "state": {"state-12345678"}, "scope": {scope}}
	if c.Nonce != "-" {
		params.Set("nonce", c.Nonce)
	}
	maxAge := c.MaxAge
	if strings.HasPrefix(maxAge, "ro:") {
		// max_age travels as a JSON number inside a signed request object (its natural type there)
		maxAge = strings.TrimPrefix(maxAge, "ro:")
		var n int
		fmt.Sscan(maxAge, &n)
		if a, ok := w.Mem.Clients["A"].(*fosite.DefaultClient); ok {
			w.Mem.Clients["A"] = &fosite.DefaultOpenIDConnectClient{DefaultClient: a, RequestObjectSigningAlgorithm: "RS256", JSONWebKeys: jwks(pubJWK(rsaKey("rsa1"), "rk", "RS256"))}
		}
		params.Set("request", signJWT(rsaKey("rsa1"), "RS256", "rk", map[string]any{"iss": "A", "aud": IssuerURL, "client_id": "A", "max_age": n}, nil))
	} else if c.MaxAge != "" {
		params.Set("max_age", c.MaxAge)
	}
	if c.Prompt != "" {
		params.Set("prompt", c.Prompt)
	}
	if hint != "" {
		params.Set("id_token_hint", hint)
	}
	// does the session satisfy the request? (reference)
	unsat := ""
	if ma := strings.TrimPrefix(c.MaxAge, "ro:"); ma != "" {
		var n int
		fmt.Sscan(ma, &n)
		if n >= 0 && c.AuthTime+n < 0 { // max_age=0: the authentication must not be older than the request
			unsat = "max_age"
		}
	}
	prompts := strings.Fields(c.Prompt)
	has := func(x string) bool {
		for _, p := range prompts {
			if p == x {
				return true
			}
		}
		return false
	}
	if has("none") && c.AuthTime > 0 {
		unsat = "prompt=none"
	}
	if has("login") && c.AuthTime < 0 {
		unsat = "prompt=login"
	}
	if c.Hint == "other" {
		unsat = "id_token_hint"
	}
	type found struct {
		idt, at, code, where string
	}
	var consent func([]string) []string
	if c.Extra == "openid-not-granted" {
		// the resource owner grants everything requested except openid
		consent = func(req []string) []string {
			var out []string
			for _, s := range req {
				if s != "openid" {
					out = append(out, s)
				}
			}
			return out
		}
	}
	var got []found
	var o *Obs
	switch c.Flow {
	case "code", "refresh", "par-code":
		params.Set("response_type", "code")
		if c.Flow == "par-code" {
			// the request is pushed; the front channel carries, next to request_uri, OpenID Connect parameters that
			// contradict the pushed ones (another nonce, a max_age and prompt any session satisfies)
			if po := w.PAR(params, w.AuthFor("A")); po.Str("request_uri") != "" {
				q := url.Values{"client_id": {"A"}, "request_uri": {po.Str("request_uri")}, "max_age": {"1000000000"}, "prompt": {"consent"}}
				if c.Nonce != "-" {
					q.Set("nonce", "front-channel-nonce-12345678") // (a parameter that was not pushed may be added: not pinned)
				}
				o = w.Authorize(q, AuthzOpts{Session: mkSess(), GrantScopes: consent})
			} else {
				o = po
			}
		} else {
			o = w.Authorize(params, AuthzOpts{Session: mkSess(), GrantScopes: consent})
		}
		if code := o.Param("code"); code != "" {
			to := w.Token(url.Values{"grant_type": {"authorization_code"}, "code": {code}, "redirect_uri": {"https://A.example/cb"}}, w.AuthFor("A"))
			if c.Flow != "refresh" {
				got = append(got, found{idt: to.Str("id_token"), at: to.Str("access_token"), where: "token response"})
				if to.Str("access_token") == "" {
					o = to
				}
			} else {
				rt := to.Str("refresh_token")
				for i := 0; i < c.Chain && rt != ""; i++ {
					w.Advance(30 * time.Second)
					ro := w.Token(url.Values{"grant_type": {"refresh_token"}, "refresh_token": {rt}}, w.AuthFor("A"))
					rt = ro.Str("refresh_token")
					got = append(got, found{idt: ro.Str("id_token"), at: ro.Str("access_token"), where: fmt.Sprintf("refresh #%d", i+1)})
				}
			}
		}
	case "implicit-idt", "implicit-idt-tok", "hyb-idt", "hyb-tok", "hyb-all":
		params.Set("response_type", map[string]string{"implicit-idt": "id_token", "implicit-idt-tok": "id_token token", "hyb-idt": "code id_token", "hyb-tok": "code token", "hyb-all": "code id_token token"}[c.Flow])
		o = w.Authorize(params, AuthzOpts{Session: mkSess(), GrantScopes: consent})
		got = append(got, found{idt: o.Param("id_token"), at: o.Param("access_token"), code: o.Param("code"), where: "authorization response"})
		if code := o.Param("code"); code != "" {
			to := w.Token(url.Values{"grant_type": {"authorization_code"}, "code": {code}, "redirect_uri": {"https://A.example/cb"}}, w.AuthFor("A"))
			got = append(got, found{idt: to.Str("id_token"), at: to.Str("access_token"), where: "token response"})
		}
	case "device":
		do := w.DeviceAuth(url.Values{"client_id": {"A"}, "scope": {scope}}, w.AuthFor("A"))
		o = do
		if dc := do.Str("device_code"); dc != "" {
			sig, _ := w.Dev.UserCodeSignature(nil, do.Str("user_code"))
			if req, ok := w.Mem.DeviceAuths[sig]; ok {
				req.SetSession(mkSess())
				req.SetUserCodeState(1)
				// the verification page creates the OpenID Connect session when the user logs in (documented integrator duty)
				_, _, dsig := c06Split2(dc)
				w.Store.CreateOpenIDConnectSession(context.Background(), dsig, req)
			}
			to := w.Token(url.Values{"grant_type": {"urn:ietf:params:oauth:grant-type:device_code"}, "device_code": {dc}}, w.AuthFor("A"))
			got = append(got, found{idt: to.Str("id_token"), at: to.Str("access_token"), where: "token response"})
			o = to
		}
	}
	res.Trans++
	anyIDT := false
	for _, g := range got {
		if g.idt == "" {
			continue
		}
		anyIDT = true
		tag := c.Flow + "/" + strings.ReplaceAll(g.where, " ", "-")
		if strings.HasPrefix(g.where, "refresh") {
			tag = "refresh"
		}
		if c.Extra == "no-openid" {
			viol("C14/id-token-without-openid-scope/"+tag, "an ID token was issued for a grant without the openid scope", "no id_token", g.where)
			continue
		}
		if c.Extra == "openid-not-granted" && c.Flow != "device" {
			viol("C14/id-token-without-granted-openid-scope/"+tag, "an ID token was issued although the openid scope was requested but not granted", "no id_token", g.where)
			continue
		}
		if c.Extra == "empty-subject" {
			viol("C14/id-token-with-empty-subject/"+tag, "an ID token was issued although the session subject is empty", "failure", g.where)
			continue
		}
		if unsat != "" && c.Flow != "device" && !strings.HasPrefix(g.where, "refresh") {
			viol("C14/id-token-issued-although-"+unsat+"-not-satisfied/"+tag+"/prompt="+strings.ReplaceAll(c.Prompt, " ", "+"), fmt.Sprintf("an ID token was issued although the session (auth_time %+d s relative to the request) does not satisfy %s", c.AuthTime, unsat), "issuance fails", g.where)
			continue
		}
		if c.Preset == "past" {
			viol("C14/id-token-with-preset-expiry-in-the-past/"+tag, "an ID token was issued although the session pre-sets an expiry in the past", "failure", g.where)
			continue
		}
		hdr, cl, err := decodeJWT(g.idt)
		if err != nil {
			viol("C14/id-token-not-a-jwt/"+tag, "the ID token is not a JWT: "+err.Error(), "JWT", g.idt)
			continue
		}
		if err := verifyJWT(g.idt, w.IDKey.Public()); err != nil {
			viol("C14/id-token-signature-invalid/"+tag+"/key="+c.Key, "the ID token does not verify under the server's signing key: "+err.Error(), "valid signature", hdr)
			continue
		}
		halg, _ := hdr["alg"].(string)
		if halg != alg {
			res.note("header-alg-differs:" + halg + "/" + alg)
		}
		auds := map[string]bool{}
		switch a := cl["aud"].(type) {
		case string:
			auds[a] = true
		case []any:
			for _, x := range a {
				if s, ok := x.(string); ok {
					auds[s] = true
				}
			}
		}
		if !auds["A"] {
			viol("C14/aud-lacks-client/"+tag+"/extra="+c.Extra, fmt.Sprintf("ID token aud %v does not name the requesting client", cl["aud"]), "contains A", cl)
		}
		if cl["sub"] != sub {
			viol("C14/sub-wrong/"+tag+"/extra="+c.Extra, fmt.Sprintf("ID token sub %v, session subject %s", cl["sub"], sub), sub, cl)
		}
		wantIss := IssuerURL
		if c.Extra == "session-issuer" {
			wantIss = "https://tenant-7.issuer.example"
		}
		if cl["iss"] != wantIss {
			viol("C14/iss-wrong/"+tag+"/extra="+c.Extra, fmt.Sprintf("ID token iss %v, session issuer %s", cl["iss"], wantIss), wantIss, cl)
		}
		wantNonce := c.Nonce
		if wantNonce == "-" {
			wantNonce = ""
		}
		gotNonce, _ := cl["nonce"].(string)
		if strings.HasPrefix(g.where, "refresh") {
			// a refresh request carries no nonce; OIDC Core 12.2 allows the claim to be dropped, but if present it must be the original one
			if gotNonce != "" && gotNonce != wantNonce {
				viol("C14/refresh-nonce-differs-from-original", fmt.Sprintf("refreshed ID token nonce %q, original request nonce %q", gotNonce, wantNonce), wantNonce, cl)
			}
		} else if c.Flow != "device" && gotNonce != wantNonce {
			viol("C14/nonce-not-echoed/"+tag+"/extra="+c.Extra, fmt.Sprintf("ID token nonce %q, request nonce %q", gotNonce, wantNonce), wantNonce, cl)
		}
		exp, _ := cl["exp"].(float64)
		now := float64(w.Now().Unix())
		if exp <= now {
			viol("C14/exp-not-in-future/"+tag, fmt.Sprintf("ID token exp %v is not after now %v", exp, now), "future", cl)
		}
		if c.Preset == "none" && exp > now+c14IDL+1 {
			viol("C14/exp-beyond-lifetime/"+tag+"/extra="+c.Extra, fmt.Sprintf("ID token exp is %v s ahead, configured lifetime %d", exp-now, c14IDL), "<= lifetime", cl)
		}
		if g.at != "" {
			want := c14Hash(halg, g.at)
			if ah, _ := cl["at_hash"].(string); ah != want {
				viol("C14/at_hash-wrong/"+tag+"/key="+c.Key+"/extra="+c.Extra, fmt.Sprintf("at_hash %q is not the left half of the %s-hash of the access token of the same response (%q)", ah, halg, want), want, cl)
			}
		}
		if ah, present := cl["at_hash"]; present && g.at == "" && g.where == "authorization response" {
			viol("C14/at_hash-without-access-token/"+tag+"/extra="+c.Extra, fmt.Sprintf("the ID token carries at_hash %v although no access token is delivered in the same response", ah), "absent", cl)
		}
		if ch, present := cl["c_hash"]; present && g.code == "" && g.where == "authorization response" {
			viol("C14/c_hash-without-code/"+tag+"/extra="+c.Extra, fmt.Sprintf("the ID token carries c_hash %v although no code is delivered in the same response", ch), "absent", cl)
		}
		if g.code != "" {
			want := c14Hash(halg, g.code)
			if ch, _ := cl["c_hash"].(string); ch != want {
				viol("C14/c_hash-wrong/"+tag+"/key="+c.Key+"/extra="+c.Extra, fmt.Sprintf("c_hash %q is not the left half of the %s-hash of the code of the same response (%q)", ch, halg, want), want, cl)
			}
		}
		if strings.HasPrefix(g.where, "refresh") {
			if _, ok := cl["c_hash"]; ok {
				viol("C14/refresh-id-token-carries-c_hash", "an ID token minted on refresh still carries c_hash", "absent", cl)
			}
		}
		if c.Extra == "override-reserved" && cl["custom"] != "fine" {
			res.note("custom-claim-dropped")
		}
		res.note("id-token-checked")
		res.distinct(fmt.Sprintf("%+v|%s", c, g.where))
	}
	cls := "no-id-token"
	if anyIDT {
		cls = "id-token"
	} else if o != nil {
		cls = "no-id-token:" + o.Class()
	}
	res.class(c.Flow + ":" + cls)
}

var c14Flows = []string{"code", "implicit-idt", "implicit-idt-tok", "hyb-idt", "hyb-tok", "hyb-all", "refresh", "device", "par-code"}
var c14Keys = []string{"ec256a", "rsa1", "ec384", "ec521", "rsa1/RS384", "rsa1/PS256", "rsa1/RS512"}

type c14Job struct {
	Flow string
	Keys []string
	Full bool
}

func init() {
	registerWorker("c14", func(arg json.RawMessage) (any, error) {
		var j c14Job
		if err := json.Unmarshal(arg, &j); err != nil {
			return nil, err
		}
		res := &WRes{}
		run := func(c c14Case) {
			if c.Flow == "refresh" {
				c.Chain = 3
			}
			n := len(res.Viol)
			c14Run(c, res)
			res.Evals++
			if len(res.Viol) == n {
				res.sample(c)
			}
		}
		for _, k := range j.Keys {
			for _, nonce := range []string{"-", "nonce-0123456789"} {
				if !j.Full {
					for _, ex := range []string{"none", "override-reserved", "preset-audience", "session-issuer"} {
						run(c14Case{Flow: j.Flow, Key: k, Nonce: nonce, Prompt: "", Hint: "none", Preset: "none", Extra: ex})
					}
					continue
				}
				for _, at := range []int{-600, 0, 3} {
					for _, ma := range []string{"", "0", "300", "1000", "ro:300"} {
						if ma == "ro:300" && j.Flow == "device" {
							continue
						}
						for _, pr := range []string{"", "none", "login", "login consent", "consent"} {
							for _, hi := range []string{"none", "same", "other", "expired-same"} {
								for _, ps := range []string{"none", "future", "past"} {
									for _, ex := range []string{"none", "override-reserved", "preset-audience", "empty-subject", "no-openid", "openid-not-granted", "session-issuer"} {
										if ex != "none" && (hi != "none" || ma != "") {
											continue // extras are crossed with the prompt/auth_time/preset grid only
										}
										run(c14Case{Flow: j.Flow, Key: k, Nonce: nonce, AuthTime: at, MaxAge: ma, Prompt: pr, Hint: hi, Preset: ps, Extra: ex})
									}
								}
							}
						}
					}
				}
			}
		}
		return res, nil
	})
	replayFns["c14"] = func(raw json.RawMessage) ([]Violation, error) {
		var c c14Case
		if err := json.Unmarshal(raw, &c); err != nil {
			return nil, err
		}
		res := &WRes{}
		c14Run(c, res)
		return res.Viol, nil
	}
	registerCheck("C14", "exploration", 150*time.Second, 25*time.Minute, func(r *Run) {
		var jobs []any
		fullKeys := []string{"ec256a", "ec384", "ec521"}
		if !r.Quick() {
			fullKeys = c14Keys
		}
		for _, f := range c14Flows {
			for _, k := range fullKeys {
				jobs = append(jobs, c14Job{Flow: f, Keys: []string{k}, Full: true})
			}
			jobs = append(jobs, c14Job{Flow: f, Keys: c14Keys, Full: false})
		}
		r.Bounds = map[string]any{"flows": c14Flows, "keys_and_algorithms": c14Keys, "full_grid_keys": fullKeys, "nonce": []string{"absent", "present"}, "auth_time_rel_s": []int{-600, 0, 3}, "max_age": []string{"", "0", "300", "1000", "300 as a JSON number inside a signed request object"},
			"prompt": []string{"", "none", "login", "login consent", "consent"}, "id_token_hint": []string{"none", "same subject", "other subject", "expired, same subject"}, "preset_expiry": []string{"none", "future", "past"},
			"extras": []string{"none", "session extra claims trying to override reserved claims", "pre-set audience", "empty subject", "no openid scope"}, "refresh_chain": 3}
		r.Rule = "full grid (flow x nonce x auth_time x max_age x prompt x hint x preset expiry x extras) for the full-grid keys, plus flow x all 7 key/algorithm pairs x nonce x extras; every ID token found in any response is verified with the server's public key and its claims recomputed from the same response (at_hash / c_hash with the hash selected by the token's alg); distinct = distinct (case, response) with a checked ID token"
		r.Assumptions = []string{"the session's alg header is set to the signing key's algorithm (the integrator's duty); key/alg mismatches are outside the alphabet", "device flow: prompt/max_age do not apply (no authorization request), nonce not applicable"}
		res := r.Pool.Do("c14", jobs, r.Deadline)
		if !r.MergeJobs(res) {
			r.Exhaustive = false
		}
		if r.Agg.Notes["id-token-checked"] == 0 {
			r.HarnessErrs = append(r.HarnessErrs, "vacuous: no ID token was checked")
		}
	})
}
