package main

import (
	"crypto/sha256"
	"encoding/base64"
	"encoding/json"
	"fmt"
	"github.com/ory/fosite"
	"net/url"
	"regexp"
	"strings"
	"time"
)

// C03 — PKCE binding cannot be bypassed or downgraded.
// Exhaustive enumeration of all redemption-attempt sequences (up to a depth) on one code,
// for every enforcement configuration / client type / flow / binding, against a reference
// predicate written from the property statement.

const c03AttackerV = "attacker-verifier-0123456789-0123456789-0123456789-xyz"

const pkceV0 = "v0-abcdefghijklmnopqrstuvwxyz0123456789-._~AB" // 45 chars, well-formed

func s256(v string) string {
	h := sha256.Sum256([]byte(v))
	return base64.RawURLEncoding.EncodeToString(h[:])
}

var unreserved = regexp.MustCompile(`^[A-Za-z0-9\-._~]*$`)

func verifierWellFormed(v string) bool {
	return len(v) >= 43 && len(v) <= 128 && unreserved.MatchString(v)
}

type c03Case struct {
	Enforce string   `json:"enforce"` // off | public | all
	Plain   bool     `json:"plain"`
	Client  string   `json:"client"` // P | A
	Flow    string   `json:"flow"`   // code | hybrid
	Binding string   `json:"binding"`
	Seq     []string `json:"seq"`
	Depth   int      `json:"depth,omitempty"` // job mode: enumerate all sequences of this length
	// AuthzFault: the named storage write fails once while the authorization response is built
	AuthzFault string   `json:"authz_fault,omitempty"`
	Kinds      []string `json:"kinds,omitempty"`
}

var c03Kinds = []string{"correctV", "noV", "wrongV", "crossV", "short42", "long129", "badchar"}

// extended alphabet: the same attempts with unusual grant_type spellings (a token request is a
// token request however its grant_type list is written)
var c03KindsExt = append(append([]string(nil), c03Kinds...), "noV/gt=extra", "noV/gt=dup", "wrongV/gt=extra", "noV/gt=case", "noV/fault", "wrongV/fault", "correctV/abandoned", "correctV/fault-invalidate", "noV/fault-conflict", "wrongV/fault-conflict")

// third alphabet: unusual spellings of the code itself (whatever string redeems the code must satisfy the binding)
var c03KindsSpell = []string{"correctV", "noV", "wrongV", "noV/code=trail-space", "noV/code=lead-space", "noV/code=newline", "noV/code=tab", "noV/code=crlf", "wrongV/code=trail-space", "noV/code=no-prefix", "noV/code=upper-prefix"}
var c03AuthzFaults = []string{"CreatePKCERequestSession", "CreateAuthorizeCodeSession", "CreateOpenIDConnectSession"}

func c03CodeSpelling(kind, code string) (string, string) {
	i := strings.Index(kind, "/code=")
	if i < 0 {
		return kind, code
	}
	switch kind[i+6:] {
	case "trail-space":
		code += " "
	case "lead-space":
		code = " " + code
	case "newline":
		code += "\n"
	case "tab":
		code += "\t"
	case "crlf":
		code += "\r\n"
	case "no-prefix":
		code = strings.TrimPrefix(code, "ory_ac_")
	case "upper-prefix":
		if strings.HasPrefix(code, "ory_ac_") {
			code = "ORY_AC_" + code[7:]
		}
	}
	return kind[:i], code
}

var c03Bindings = []string{"S256", "plain", "omitted", "none", "plain-short", "plain-bad", "unknown-method", "s256-lower", "Plain-caps"}

// binding -> (challenge, method param, effective method)
func c03Binding(b string) (challenge, method, eff string) {
	switch b {
	case "S256":
		return s256(pkceV0), "S256", "S256"
	case "plain":
		return s256(pkceV0), "plain", "plain"
	case "omitted":
		return s256(pkceV0), "", "plain"
	case "plain-short":
		return "short-challenge", "plain", "plain"
	case "plain-bad":
		return strings.Repeat("x", 42) + "!", "plain", "plain"
	case "unknown-method":
		return s256(pkceV0), "S512", "?"
	case "s256-lower":
		return s256(pkceV0), "s256", "?"
	case "Plain-caps":
		return s256(pkceV0), "PLAIN", "?"
	}
	return "", "", ""
}

func c03GrantType(kind string) (string, string) {
	if i := strings.Index(kind, "/code="); i >= 0 {
		kind = kind[:i]
	}
	if i := strings.Index(kind, "/gt="); i >= 0 {
		switch kind[i+4:] {
		case "extra":
			return kind[:i], "authorization_code x"
		case "dup":
			return kind[:i], "authorization_code authorization_code"
		case "case":
			return kind[:i], "Authorization_Code"
		}
	}
	for _, sfx := range []string{"/fault", "/abandoned", "/fault-invalidate", "/fault-conflict"} {
		if strings.HasSuffix(kind, sfx) {
			return strings.TrimSuffix(kind, sfx), "authorization_code"
		}
	}
	return kind, "authorization_code"
}

func c03Verifier(binding, kind string) (string, bool) {
	kind, _ = c03GrantType(kind)
	challenge, _, eff := c03Binding(binding)
	correct := pkceV0
	cross := challenge
	if eff == "plain" {
		correct = challenge
		cross = pkceV0
	}
	if binding == "none" {
		correct = pkceV0
		cross = s256(pkceV0)
	}
	switch kind {
	case "correctV":
		return correct, true
	case "noV":
		return "", false
	case "wrongV":
		return strings.Repeat("w", 43), true
	case "crossV":
		return cross, true
	case "attackerV":
		return c03AttackerV, true
	case "short42":
		if len(correct) >= 42 {
			return correct[:42], true
		}
		return correct, true
	case "long129":
		return correct + strings.Repeat("A", 129-len(correct)), true
	case "badchar":
		return correct[:len(correct)-1] + "!", true
	}
	panic("kind " + kind)
}

// refAllowed: may a token request with this verifier yield tokens, per the statement?
func c03RefAllowed(c c03Case, verifier string, sent bool) (bool, string) {
	challenge, _, eff := c03Binding(c.Binding)
	if c.Binding == "none" {
		enforced := c.Enforce == "all" || (c.Enforce == "public" && c.Client == "P")
		if enforced {
			return false, "PKCE enforced, code obtained without challenge"
		}
		return true, "no challenge, not enforced (don't-care on verifier)"
	}
	if !sent {
		return false, "challenge bound but no verifier"
	}
	if !verifierWellFormed(verifier) {
		return false, "verifier not well-formed"
	}
	switch eff {
	case "S256":
		if s256(verifier) == challenge {
			return true, "S256 match"
		}
	case "plain":
		if verifier == challenge {
			return true, "plain match"
		}
	}
	return false, "verifier does not transform to challenge under bound method " + eff
}

func c03Profile(c c03Case) Profile {
	return Profile{EnforcePKCE: c.Enforce == "all", EnforcePKCEPublic: c.Enforce == "public", PKCEPlain: c.Plain}
}

// c03RunSeq executes one sequence on a fresh world. Returns per-attempt outcome classes.
func c03RunSeq(c c03Case, res *WRes) (outcomes []string) {
	w := NewWorld(c03Profile(c))
	challenge, method, _ := c03Binding(c.Binding)
	params := url.Values{
		"client_id":     {c.Client},
		"redirect_uri":  {"https://" + c.Client + ".example/cb"},
		"state":         {"state-12345678"},
		"response_type": {"code"},
		"scope":         {"a"},
	}
	if c.Flow == "hybrid" {
		params.Set("response_type", "code id_token")
		params.Set("scope", "openid a")
		params.Set("nonce", "nonce-12345678")
	}
	if challenge != "" {
		params.Set("code_challenge", challenge)
		if method != "" {
			params.Set("code_challenge_method", method)
		}
	}
	if c.AuthzFault != "" {
		fired := false
		w.Store.Before = func(call *Call) error {
			if call.Name == c.AuthzFault && !fired {
				fired = true
				return fmt.Errorf("storage: connection reset")
			}
			return nil
		}
	}
	var ao *Obs
	if c.Flow == "par-shadow" {
		// the request (with its challenge) is pushed; the front-channel leg carries another challenge, which must not
		// replace the pushed one
		po := w.PAR(params, w.AuthFor(c.Client))
		ru := po.Str("request_uri")
		if ru == "" {
			res.class("authz:push-refused:" + po.Class())
			return []string{"no-code"}
		}
		q := url.Values{"client_id": {c.Client}, "request_uri": {ru}, "code_challenge": {s256(c03AttackerV)}}
		if method != "" {
			// only parameters that were pushed are contradicted (adding one that was not pushed is not pinned: C17)
			q.Set("code_challenge_method", "S256")
		}
		ao = w.Authorize(q, AuthzOpts{})
	} else {
		ao = w.Authorize(params, AuthzOpts{})
	}
	w.Store.Before = nil
	res.Trans++
	code := ao.Param("code")
	mk := func(fp, what, exp string, obs any, upto int) Violation {
		cc := c
		cc.Depth = 0
		cc.Seq = append([]string(nil), c.Seq[:upto]...)
		return Violation{Property: "C03", Fingerprint: fp, What: what, Engine: "c03", Case: cc, Expected: exp, Observed: obs}
	}
	if code == "" {
		res.class("authz:" + ao.Class())
		return []string{"no-code"}
	}
	// authorize-stage obligations
	if (c.Binding == "plain" || c.Binding == "omitted" || c.Binding == "plain-short" || c.Binding == "plain-bad") && !c.Plain {
		res.violate(mk("C03/authorize-accepted-plain-while-disabled/bind="+c.Binding, "authorization endpoint issued a code for a plain/omitted code_challenge_method although plain is not enabled", "refusal", ao, 0))
	}
	if c.Binding == "unknown-method" || c.Binding == "s256-lower" || c.Binding == "Plain-caps" {
		res.violate(mk("C03/authorize-accepted-unknown-method", "authorization endpoint issued a code for an unsupported code_challenge_method", "refusal", ao, 0))
	}
	if c.Binding == "none" && (c.Enforce == "all" || (c.Enforce == "public" && c.Client == "P")) {
		res.violate(mk("C03/authorize-issued-code-without-challenge-under-enforcement/client="+c.Client, "authorization endpoint issued a code without code_challenge although PKCE is enforced for this client", "refusal", ao, 0))
	}
	res.class("authz:code")
	failedBefore := false
	for i, kind := range c.Seq {
		v, sent := c03Verifier(c.Binding, kind)
		_, gt := c03GrantType(kind)
		_, spelt := c03CodeSpelling(kind, code)
		form := url.Values{"grant_type": {gt}, "code": {spelt}, "redirect_uri": {"https://" + c.Client + ".example/cb"}}
		if sent {
			form.Set("code_verifier", v)
		}
		if strings.HasSuffix(kind, "/fault") {
			// the PKCE lookup fails with a transient storage error during this one request
			w.Store.Before = func(call *Call) error {
				if call.Name == "GetPKCERequestSession" {
					return fmt.Errorf("storage: connection reset")
				}
				return nil
			}
		}
		if strings.HasSuffix(kind, "/fault-conflict") {
			// the PKCE lookup loses a transaction conflict: the store answers with the sentinel fosite documents for it
			w.Store.Before = func(call *Call) error {
				if call.Name == "GetPKCERequestSession" {
					return fosite.ErrSerializationFailure
				}
				return nil
			}
		}
		if strings.HasSuffix(kind, "/fault-invalidate") {
			// the verifier is checked, then the invalidation of the code fails with a transient storage error
			w.Store.Before = func(call *Call) error {
				if call.Name == "InvalidateAuthorizeCodeSession" {
					return fmt.Errorf("storage: connection reset")
				}
				return nil
			}
		}
		var o *Obs
		if strings.HasSuffix(kind, "/abandoned") {
			// the request is validated (NewAccessRequest) and never completed: nothing was issued, the code is unspent
			err := w.TokenAbandoned(form, w.AuthFor(c.Client))
			o = &Obs{Err: "abandoned", GoErr: errString(err)}
		} else {
			o = w.Token(form, w.AuthFor(c.Client))
		}
		w.Store.Before = nil
		res.Trans++
		issued := o.Str("access_token") != "" || o.Str("refresh_token") != "" || o.Str("id_token") != ""
		allowed, why := c03RefAllowed(c, v, sent)
		cls := kind + ":" + o.Class()
		outcomes = append(outcomes, cls)
		res.class(cls)
		if issued && !allowed {
			prior := "none"
			if failedBefore {
				prior = "failed-attempts"
			}
			fp := fmt.Sprintf("C03/tokens-issued-without-valid-proof/bind=%s/attempt=%s/prior=%s", c.Binding, kind, prior)
			if c.AuthzFault != "" {
				fp += "/authz-fault=" + c.AuthzFault
			}
			res.violate(mk(fp, fmt.Sprintf("token endpoint issued tokens for attempt %q (%s) on a code bound with %s after attempts %v", kind, why, c.Binding, c.Seq[:i]), "refusal: "+why, o, i+1))
		}
		if issued {
			if i == 0 && kind == "correctV" {
				res.note("sanity_correct_first_ok")
			}
			break // the code is consumed; replays are C01's subject
		}
		if !issued && allowed && c.Binding != "none" && !strings.HasSuffix(kind, "/abandoned") && !strings.HasSuffix(kind, "/fault-invalidate") {
			if failedBefore {
				res.DontCare++ // property does not demand that correctV still works after failures
				res.note("correct_refused_after_failures")
			} else if i == 0 {
				res.note("sanity_correct_first_refused")
			}
		}
		failedBefore = true
	}
	return outcomes
}

func c03Job(arg json.RawMessage) (any, error) {
	var c c03Case
	if err := json.Unmarshal(arg, &c); err != nil {
		return nil, err
	}
	res := &WRes{}
	// enumerate all sequences of exactly Depth attempts (every shorter one is a prefix), shortest-first
	// effect: iterate lengths 1..Depth so that the first counterexample is the shortest.
	kinds := c.Kinds
	if len(kinds) == 0 {
		kinds = c03Kinds
	}
	c.Kinds = nil
	donePrefix := map[string]bool{} // prefixes that ended in issuance: extensions are not distinct histories
	for L := 1; L <= c.Depth; L++ {
		idx := make([]int, L)
		for {
			seq := make([]string, L)
			for i, k := range idx {
				seq[i] = kinds[k]
			}
			skip := false
			for p := 1; p < L; p++ {
				if donePrefix[strings.Join(seq[:p], ",")] {
					skip = true
					break
				}
			}
			if !skip {
				cc := c
				cc.Seq = seq
				out := c03RunSeq(cc, res)
				res.Evals++
				res.Traces++
				res.States++
				key := fmt.Sprintf("%s/%v/%s/%s/%s/%s|%v|%v", c.Enforce, c.Plain, c.Client, c.Flow, c.Binding, c.AuthzFault, seq, out)
				if len(out) > 0 && out[0] != "no-code" {
					res.distinct(key)
				}
				if len(out) > 0 && strings.HasSuffix(out[len(out)-1], ":ok") && len(out) <= L {
					donePrefix[strings.Join(seq[:len(out)], ",")] = true
				}
				if len(out) == 1 && out[0] == "no-code" {
					// authorization refused: no attempt sequence exists for this configuration
					res.sample(map[string]any{"case": cc, "outcomes": out})
					return res, nil
				}
				if L == c.Depth {
					res.sample(map[string]any{"case": cc, "outcomes": out})
				}
			}
			// next
			j := L - 1
			for j >= 0 {
				idx[j]++
				if idx[j] < len(kinds) {
					break
				}
				idx[j] = 0
				j--
			}
			if j < 0 {
				break
			}
		}
	}
	return res, nil
}

func init() {
	registerWorker("c03", c03Job)
	replayFns["c03"] = func(raw json.RawMessage) ([]Violation, error) {
		var c c03Case
		if err := json.Unmarshal(raw, &c); err != nil {
			return nil, err
		}
		res := &WRes{}
		c03RunSeq(c, res)
		return res.Viol, nil
	}
	registerCheck("C03", "model_checking", 120*time.Second, 25*time.Minute, func(r *Run) {
		depth := 4
		if !r.Quick() {
			depth = 5
		}
		var jobs []any
		for _, enf := range []string{"off", "public", "all"} {
			for _, plain := range []bool{false, true} {
				for _, cl := range []string{"P", "A"} {
					for _, fl := range []string{"code", "hybrid"} {
						for _, b := range c03Bindings {
							jobs = append(jobs, c03Case{Enforce: enf, Plain: plain, Client: cl, Flow: fl, Binding: b, Depth: depth})
							jobs = append(jobs, c03Case{Enforce: enf, Plain: plain, Client: cl, Flow: fl, Binding: b, Depth: depth - 1, Kinds: c03KindsExt})
							jobs = append(jobs, c03Case{Enforce: enf, Plain: plain, Client: cl, Flow: fl, Binding: b, Depth: depth - 2, Kinds: c03KindsSpell})
							if fl == "code" && b != "none" {
								jobs = append(jobs, c03Case{Enforce: enf, Plain: plain, Client: cl, Flow: "par-shadow", Binding: b, Depth: depth - 2, Kinds: append(append([]string(nil), c03Kinds...), "attackerV")})
							}
							for _, af := range c03AuthzFaults {
								if af == "CreateOpenIDConnectSession" && fl != "hybrid" {
									continue
								}
								jobs = append(jobs, c03Case{Enforce: enf, Plain: plain, Client: cl, Flow: fl, Binding: b, Depth: depth - 2, AuthzFault: af})
							}
						}
					}
				}
			}
		}
		r.Bounds = map[string]any{"attempt_sequence_depth": depth, "attempt_kinds": c03Kinds, "extended_kinds_to_depth": depth - 1, "extended_kinds": c03KindsExt, "code_spelling_kinds_to_depth": depth - 2, "code_spelling_kinds": c03KindsSpell, "authorization_time_faults_to_depth": depth - 2, "authorization_time_faults": c03AuthzFaults, "pushed_request_with_foreign_challenge_on_the_front_channel": fmt.Sprintf("flow par-shadow, attempt kinds + the attacker's verifier, to depth %d", depth-2), "bindings": c03Bindings,
			"enforcement": []string{"off", "public", "all"}, "plain": []bool{false, true}, "clients": []string{"P(public)", "A(confidential)"}, "flows": []string{"code", "hybrid"}}
		r.Rule = "every sequence of <=depth redemption attempts (7 kinds) on one code, for every enforcement x plain x client x flow x binding; a case is one executed history; distinct non-trivial = distinct (config, sequence, outcome vector) where a code was issued"
		r.Assumptions = []string{"reference predicate: tokens may be issued only for a well-formed verifier transforming to the bound challenge under the bound method (or no challenge and no applicable enforcement)",
			"a history stops at the first issuance (replay of a consumed code is C01)"}
		res := r.Pool.Do("c03", jobs, r.Deadline)
		if !r.MergeJobs(res) {
			r.Exhaustive = false
		}
		if r.Agg.Notes["sanity_correct_first_ok"] == 0 {
			r.HarnessErrs = append(r.HarnessErrs, "vacuous: the correct verifier never succeeded")
		}
	})
}
