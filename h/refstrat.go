package main

import (
	"net/url"
	"strings"
)

// Reference specifications of the documented scope / audience policies, written from the
// README and the property statement, independent of fosite's code.

func refExact(haystack []string, needle string) bool {
	for _, h := range haystack {
		if h == needle {
			return true
		}
	}
	return false
}

func refHierarchic(haystack []string, needle string) bool {
	for _, h := range haystack {
		if needle == h || strings.HasPrefix(needle, h+".") {
			return true
		}
	}
	return false
}

// refWildcardOne: verdict of one matcher; dc=true when the documentation does not decide
// (empty segments inside the tail absorbed by a trailing wildcard).
func refWildcardOne(matcher, needle string) (ok bool, dc bool) {
	mp := strings.Split(matcher, ".")
	np := strings.Split(needle, ".")
	if len(mp) > len(np) {
		return false, false
	}
	for k, m := range mp {
		if m == "*" {
			if np[k] == "" {
				return false, false
			}
			continue
		}
		if m != np[k] {
			return false, false
		}
	}
	if len(mp) < len(np) {
		if mp[len(mp)-1] != "*" {
			return false, false
		}
		for _, s := range np[len(mp):] {
			if s == "" {
				return true, true
			}
		}
	}
	return true, false
}

func refWildcard(haystack []string, needle string) (ok bool, dc bool) {
	anyDC := false
	for _, m := range haystack {
		o, d := refWildcardOne(m, needle)
		if o && !d {
			return true, false
		}
		if d {
			anyDC = true
		}
	}
	return false, anyDC
}

func refScope(strategy string, haystack []string, needle string) (ok bool, dc bool) {
	switch strategy {
	case "exact":
		return refExact(haystack, needle), false
	case "wildcard":
		return refWildcard(haystack, needle)
	default:
		return refHierarchic(haystack, needle), false
	}
}

// refAudienceOne: same scheme, same host (incl. port), path equal or prefix at a segment boundary.
// dc: host case differences, unparsable URLs.
func refAudienceOne(allowed, needle string) (ok bool, dc bool) {
	a, err1 := url.Parse(allowed)
	n, err2 := url.Parse(needle)
	if err1 != nil || err2 != nil {
		return false, true
	}
	if a.Scheme != n.Scheme {
		return false, false
	}
	if a.Host != n.Host {
		if strings.EqualFold(a.Host, n.Host) {
			return false, true
		}
		return false, false
	}
	ap := strings.TrimRight(a.Path, "/")
	np := strings.TrimRight(n.Path, "/")
	if ap == np {
		return true, false
	}
	if strings.HasPrefix(np, ap+"/") {
		return true, false
	}
	return false, false
}

func refAudience(strategy string, allowed []string, needles []string) (ok bool, dc bool) {
	for _, n := range needles {
		found := false
		for _, a := range allowed {
			if strategy == "exact" {
				if a == n {
					found = true
				}
				continue
			}
			o, d := refAudienceOne(a, n)
			if d {
				dc = true
			}
			if o {
				found = true
			}
		}
		if !found {
			return false, dc
		}
	}
	return true, dc
}
