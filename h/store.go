package main

import (
	"context"
	"fmt"
	"net/url"
	"reflect"
	"sort"
	"strings"
	"time"

	"github.com/go-jose/go-jose/v3"

	"github.com/ory/fosite"
	"github.com/ory/fosite/storage"
)

// Call is one storage-interface call as seen by the proxy.
type Call struct {
	Idx    int
	Name   string
	Keys   []string   // string arguments (keys, signatures, request ids, jti, user name, ...)
	Form   url.Values // request form of a stored requester (Create* calls)
	ReqID  string
	Err    string
	Write  bool
	Thread int
}

// ProxyStore delegates every storage method fosite type-asserts for to the reference
// MemoryStore and is the single seam for fault injection, logging and scheduling.
type ProxyStore struct {
	M *storage.MemoryStore

	Log   []Call
	NoLog bool
	calls int
	// Before is consulted before each call; a non-nil error is returned to fosite instead of
	// executing the call.
	Before func(c *Call) error
	// After is called after the call was executed (or faulted).
	After func(c *Call)

	// ContractDevice: keep invalidated device codes and answer ErrInvalidatedDeviceCode with
	// the request (the contract documented in handler/rfc8628/storage.go).
	ContractDevice bool
	invalidDevice  map[string]fosite.DeviceRequester
	tx             *TxStore
}

func NewProxyStore(m *storage.MemoryStore) *ProxyStore {
	return &ProxyStore{M: m, invalidDevice: map[string]fosite.DeviceRequester{}}
}

var writeCalls = map[string]bool{}

func (p *ProxyStore) pre(name string, write bool, req fosite.Requester, keys ...string) (*Call, error) {
	c := &Call{Idx: p.calls, Name: name, Keys: keys, Write: write}
	p.calls++
	if req != nil && !isNilReq(req) {
		c.ReqID = peekID(req) // never GetID(): it assigns an id lazily, i.e. writes to the object under observation
		c.Form = cloneValues(req.GetRequestForm())
	}
	var err error
	if p.Before != nil {
		err = p.Before(c)
	}
	return c, err
}

func isNilReq(r fosite.Requester) bool {
	v := reflect.ValueOf(r)
	return v.Kind() == reflect.Ptr && v.IsNil()
}

func cloneValues(v url.Values) url.Values {
	if v == nil {
		return nil
	}
	o := url.Values{}
	for k, vs := range v {
		o[k] = append([]string(nil), vs...)
	}
	return o
}

func (p *ProxyStore) post(c *Call, err error) {
	if err != nil {
		c.Err = err.Error()
	}
	if !p.NoLog {
		p.Log = append(p.Log, *c)
	}
	if p.After != nil {
		p.After(c)
	}
}

// ---- ClientManager

func (p *ProxyStore) GetClient(ctx context.Context, id string) (fosite.Client, error) {
	c, err := p.pre("GetClient", false, nil, id)
	var r fosite.Client
	if err == nil {
		r, err = p.M.GetClient(ctx, id)
	}
	p.post(c, err)
	return r, err
}
func (p *ProxyStore) ClientAssertionJWTValid(ctx context.Context, jti string) error {
	c, err := p.pre("ClientAssertionJWTValid", false, nil, jti)
	if err == nil {
		err = p.M.ClientAssertionJWTValid(ctx, jti)
	}
	p.post(c, err)
	return err
}
func (p *ProxyStore) SetClientAssertionJWT(ctx context.Context, jti string, exp time.Time) error {
	c, err := p.pre("SetClientAssertionJWT", true, nil, jti)
	if err == nil {
		op := func() error { return p.M.SetClientAssertionJWT(ctx, jti, exp) }
		err = op()
		if err == nil {
			p.outsideTx(ctx, op)
		}
	}
	p.post(c, err)
	return err
}

// ---- authorize codes

func (p *ProxyStore) CreateAuthorizeCodeSession(ctx context.Context, code string, req fosite.Requester) error {
	c, err := p.pre("CreateAuthorizeCodeSession", true, req, code)
	if err == nil {
		op := func() error { return p.M.CreateAuthorizeCodeSession(ctx, code, req) }
		err = op()
		if err == nil {
			p.outsideTx(ctx, op)
		}
	}
	p.post(c, err)
	return err
}
func (p *ProxyStore) GetAuthorizeCodeSession(ctx context.Context, code string, s fosite.Session) (fosite.Requester, error) {
	c, err := p.pre("GetAuthorizeCodeSession", false, nil, code)
	var r fosite.Requester
	if err == nil {
		r, err = p.M.GetAuthorizeCodeSession(ctx, code, s)
	}
	p.post(c, err)
	return r, err
}
func (p *ProxyStore) InvalidateAuthorizeCodeSession(ctx context.Context, code string) error {
	c, err := p.pre("InvalidateAuthorizeCodeSession", true, nil, code)
	if err == nil {
		op := func() error { return p.M.InvalidateAuthorizeCodeSession(ctx, code) }
		err = op()
		if err == nil {
			p.outsideTx(ctx, op)
		}
	}
	p.post(c, err)
	return err
}

// ---- PKCE

func (p *ProxyStore) CreatePKCERequestSession(ctx context.Context, code string, req fosite.Requester) error {
	c, err := p.pre("CreatePKCERequestSession", true, req, code)
	if err == nil {
		op := func() error { return p.M.CreatePKCERequestSession(ctx, code, req) }
		err = op()
		if err == nil {
			p.outsideTx(ctx, op)
		}
	}
	p.post(c, err)
	return err
}
func (p *ProxyStore) GetPKCERequestSession(ctx context.Context, code string, s fosite.Session) (fosite.Requester, error) {
	c, err := p.pre("GetPKCERequestSession", false, nil, code)
	var r fosite.Requester
	if err == nil {
		r, err = p.M.GetPKCERequestSession(ctx, code, s)
	}
	p.post(c, err)
	return r, err
}
func (p *ProxyStore) DeletePKCERequestSession(ctx context.Context, code string) error {
	c, err := p.pre("DeletePKCERequestSession", true, nil, code)
	if err == nil {
		op := func() error { return p.M.DeletePKCERequestSession(ctx, code) }
		err = op()
		if err == nil {
			p.outsideTx(ctx, op)
		}
	}
	p.post(c, err)
	return err
}

// ---- OIDC sessions

func (p *ProxyStore) CreateOpenIDConnectSession(ctx context.Context, code string, req fosite.Requester) error {
	c, err := p.pre("CreateOpenIDConnectSession", true, req, code)
	if err == nil {
		op := func() error { return p.M.CreateOpenIDConnectSession(ctx, code, req) }
		err = op()
		if err == nil {
			p.outsideTx(ctx, op)
		}
	}
	p.post(c, err)
	return err
}
func (p *ProxyStore) GetOpenIDConnectSession(ctx context.Context, code string, req fosite.Requester) (fosite.Requester, error) {
	c, err := p.pre("GetOpenIDConnectSession", false, nil, code)
	var r fosite.Requester
	if err == nil {
		r, err = p.M.GetOpenIDConnectSession(ctx, code, req)
	}
	p.post(c, err)
	return r, err
}
func (p *ProxyStore) DeleteOpenIDConnectSession(ctx context.Context, code string) error {
	c, err := p.pre("DeleteOpenIDConnectSession", true, nil, code)
	if err == nil {
		op := func() error { return p.M.DeleteOpenIDConnectSession(ctx, code) }
		err = op()
		if err == nil {
			p.outsideTx(ctx, op)
		}
	}
	p.post(c, err)
	return err
}

// ---- access tokens

func (p *ProxyStore) CreateAccessTokenSession(ctx context.Context, sig string, req fosite.Requester) error {
	c, err := p.pre("CreateAccessTokenSession", true, req, sig)
	if err == nil {
		op := func() error { return p.M.CreateAccessTokenSession(ctx, sig, req) }
		err = op()
		if err == nil {
			p.outsideTx(ctx, op)
		}
	}
	p.post(c, err)
	return err
}
func (p *ProxyStore) GetAccessTokenSession(ctx context.Context, sig string, s fosite.Session) (fosite.Requester, error) {
	c, err := p.pre("GetAccessTokenSession", false, nil, sig)
	var r fosite.Requester
	if err == nil {
		r, err = p.M.GetAccessTokenSession(ctx, sig, s)
	}
	p.post(c, err)
	return r, err
}
func (p *ProxyStore) DeleteAccessTokenSession(ctx context.Context, sig string) error {
	c, err := p.pre("DeleteAccessTokenSession", true, nil, sig)
	if err == nil {
		op := func() error { return p.M.DeleteAccessTokenSession(ctx, sig) }
		err = op()
		if err == nil {
			p.outsideTx(ctx, op)
		}
	}
	p.post(c, err)
	return err
}

// ---- refresh tokens

func (p *ProxyStore) CreateRefreshTokenSession(ctx context.Context, sig, atSig string, req fosite.Requester) error {
	c, err := p.pre("CreateRefreshTokenSession", true, req, sig, atSig)
	if err == nil {
		op := func() error { return p.M.CreateRefreshTokenSession(ctx, sig, atSig, req) }
		err = op()
		if err == nil {
			p.outsideTx(ctx, op)
		}
	}
	p.post(c, err)
	return err
}
func (p *ProxyStore) GetRefreshTokenSession(ctx context.Context, sig string, s fosite.Session) (fosite.Requester, error) {
	c, err := p.pre("GetRefreshTokenSession", false, nil, sig)
	var r fosite.Requester
	if err == nil {
		r, err = p.M.GetRefreshTokenSession(ctx, sig, s)
	}
	p.post(c, err)
	return r, err
}
func (p *ProxyStore) DeleteRefreshTokenSession(ctx context.Context, sig string) error {
	c, err := p.pre("DeleteRefreshTokenSession", true, nil, sig)
	if err == nil {
		op := func() error { return p.M.DeleteRefreshTokenSession(ctx, sig) }
		err = op()
		if err == nil {
			p.outsideTx(ctx, op)
		}
	}
	p.post(c, err)
	return err
}
func (p *ProxyStore) RotateRefreshToken(ctx context.Context, requestID string, sig string) error {
	c, err := p.pre("RotateRefreshToken", true, nil, requestID, sig)
	if err == nil {
		op := func() error { return p.M.RotateRefreshToken(ctx, requestID, sig) }
		err = op()
		if err == nil {
			p.outsideTx(ctx, op)
		}
	}
	p.post(c, err)
	return err
}
func (p *ProxyStore) RevokeRefreshToken(ctx context.Context, requestID string) error {
	c, err := p.pre("RevokeRefreshToken", true, nil, requestID)
	if err == nil {
		op := func() error { return p.M.RevokeRefreshToken(ctx, requestID) }
		err = op()
		if err == nil {
			p.outsideTx(ctx, op)
		}
	}
	p.post(c, err)
	return err
}
func (p *ProxyStore) RevokeAccessToken(ctx context.Context, requestID string) error {
	c, err := p.pre("RevokeAccessToken", true, nil, requestID)
	if err == nil {
		op := func() error { return p.M.RevokeAccessToken(ctx, requestID) }
		err = op()
		if err == nil {
			p.outsideTx(ctx, op)
		}
	}
	p.post(c, err)
	return err
}

// ---- ROPC

func (p *ProxyStore) Authenticate(ctx context.Context, name string, secret string) (string, error) {
	c, err := p.pre("Authenticate", false, nil, name, secret)
	var sub string
	if err == nil {
		sub, err = p.M.Authenticate(ctx, name, secret)
	}
	p.post(c, err)
	return sub, err
}

// ---- RFC 7523

func (p *ProxyStore) GetPublicKey(ctx context.Context, issuer string, subject string, keyId string) (*jose.JSONWebKey, error) {
	c, err := p.pre("GetPublicKey", false, nil, issuer, subject, keyId)
	var k *jose.JSONWebKey
	if err == nil {
		k, err = p.M.GetPublicKey(ctx, issuer, subject, keyId)
	}
	p.post(c, err)
	return k, err
}
func (p *ProxyStore) GetPublicKeys(ctx context.Context, issuer string, subject string) (*jose.JSONWebKeySet, error) {
	c, err := p.pre("GetPublicKeys", false, nil, issuer, subject)
	var k *jose.JSONWebKeySet
	if err == nil {
		k, err = p.M.GetPublicKeys(ctx, issuer, subject)
		if k != nil {
			// MemoryStore iterates a map; make the order deterministic.
			sort.Slice(k.Keys, func(i, j int) bool { return k.Keys[i].KeyID < k.Keys[j].KeyID })
		}
	}
	p.post(c, err)
	return k, err
}
func (p *ProxyStore) GetPublicKeyScopes(ctx context.Context, issuer string, subject string, keyId string) ([]string, error) {
	c, err := p.pre("GetPublicKeyScopes", false, nil, issuer, subject, keyId)
	var k []string
	if err == nil {
		k, err = p.M.GetPublicKeyScopes(ctx, issuer, subject, keyId)
	}
	p.post(c, err)
	return k, err
}
func (p *ProxyStore) IsJWTUsed(ctx context.Context, jti string) (bool, error) {
	c, err := p.pre("IsJWTUsed", false, nil, jti)
	var u bool
	if err == nil {
		u, err = p.M.IsJWTUsed(ctx, jti)
	}
	p.post(c, err)
	return u, err
}
func (p *ProxyStore) MarkJWTUsedForTime(ctx context.Context, jti string, exp time.Time) error {
	c, err := p.pre("MarkJWTUsedForTime", true, nil, jti)
	if err == nil {
		op := func() error { return p.M.MarkJWTUsedForTime(ctx, jti, exp) }
		err = op()
		if err == nil {
			p.outsideTx(ctx, op)
		}
	}
	p.post(c, err)
	return err
}

// ---- PAR

func (p *ProxyStore) CreatePARSession(ctx context.Context, requestURI string, request fosite.AuthorizeRequester) error {
	c, err := p.pre("CreatePARSession", true, request, requestURI)
	if err == nil {
		op := func() error { return p.M.CreatePARSession(ctx, requestURI, request) }
		err = op()
		if err == nil {
			p.outsideTx(ctx, op)
		}
	}
	p.post(c, err)
	return err
}
func (p *ProxyStore) GetPARSession(ctx context.Context, requestURI string) (fosite.AuthorizeRequester, error) {
	c, err := p.pre("GetPARSession", false, nil, requestURI)
	var r fosite.AuthorizeRequester
	if err == nil {
		r, err = p.M.GetPARSession(ctx, requestURI)
	}
	p.post(c, err)
	return r, err
}
func (p *ProxyStore) DeletePARSession(ctx context.Context, requestURI string) error {
	c, err := p.pre("DeletePARSession", true, nil, requestURI)
	if err == nil {
		op := func() error { return p.M.DeletePARSession(ctx, requestURI) }
		err = op()
		if err == nil {
			p.outsideTx(ctx, op)
		}
	}
	p.post(c, err)
	return err
}

// ---- device

func (p *ProxyStore) CreateDeviceAuthSession(ctx context.Context, dSig, uSig string, req fosite.DeviceRequester) error {
	c, err := p.pre("CreateDeviceAuthSession", true, req, dSig, uSig)
	if err == nil {
		op := func() error { return p.M.CreateDeviceAuthSession(ctx, dSig, uSig, req) }
		err = op()
		if err == nil {
			p.outsideTx(ctx, op)
		}
	}
	p.post(c, err)
	return err
}
func (p *ProxyStore) GetDeviceCodeSession(ctx context.Context, sig string, s fosite.Session) (fosite.DeviceRequester, error) {
	c, err := p.pre("GetDeviceCodeSession", false, nil, sig)
	var r fosite.DeviceRequester
	if err == nil {
		if inv, ok := p.invalidDevice[sig]; p.ContractDevice && ok {
			r, err = inv, fosite.ErrInvalidatedDeviceCode
		} else {
			r, err = p.M.GetDeviceCodeSession(ctx, sig, s)
		}
	}
	p.post(c, err)
	return r, err
}
func (p *ProxyStore) InvalidateDeviceCodeSession(ctx context.Context, sig string) error {
	c, err := p.pre("InvalidateDeviceCodeSession", true, nil, sig)
	if err == nil {
		if p.ContractDevice {
			if r, gerr := p.M.GetDeviceCodeSession(ctx, sig, nil); gerr == nil {
				p.invalidDevice[sig] = r
			}
		}
		err = p.M.InvalidateDeviceCodeSession(ctx, sig)
	}
	p.post(c, err)
	return err
}

// outsideTx: a write issued while a transaction is open but with a context that does not carry that
// transaction is NOT part of it (a database would apply it on another connection): it must survive a rollback,
// so it is applied to the rollback snapshot as well.
func (p *ProxyStore) outsideTx(ctx context.Context, op func() error) {
	if p.tx == nil || p.tx.snap == nil || p.tx.depth == 0 {
		return
	}
	if ctx != nil && ctx.Value(txKey{}) != nil {
		return
	}
	p.tx.OutsideWrites++
	live := takeSnapshot(p)
	p.tx.snap.restore(p)
	_ = op()
	p.tx.snap = takeSnapshot(p)
	live.restore(p)
}

// TxStore adds storage.Transactional with real rollback on top of ProxyStore.
type TxStore struct {
	*ProxyStore
	snap          *snapshot
	TxTrace       []string
	depth         int
	OutsideWrites int // writes issued during an open transaction with a context that does not carry it
}

type txKey struct{}

func (t *TxStore) BeginTX(ctx context.Context) (context.Context, error) {
	c, err := t.pre("BeginTX", true, nil)
	if err == nil {
		t.snap = takeSnapshot(t.ProxyStore)
		t.depth++
		t.TxTrace = append(t.TxTrace, "begin")
	} else {
		t.TxTrace = append(t.TxTrace, "begin!")
	}
	t.post(c, err)
	return context.WithValue(ctx, txKey{}, true), err
}
func (t *TxStore) Commit(ctx context.Context) error {
	c, err := t.pre("Commit", true, nil)
	if err == nil {
		t.snap = nil
		t.depth--
		t.TxTrace = append(t.TxTrace, "commit")
	} else {
		t.TxTrace = append(t.TxTrace, "commit!")
	}
	t.post(c, err)
	return err
}
func (t *TxStore) Rollback(ctx context.Context) error {
	c, err := t.pre("Rollback", true, nil)
	if err == nil {
		if t.snap != nil {
			t.snap.restore(t.ProxyStore)
			t.snap = nil
		}
		t.depth--
		t.TxTrace = append(t.TxTrace, "rollback")
	} else {
		t.TxTrace = append(t.TxTrace, "rollback!")
	}
	t.post(c, err)
	return err
}

type snapshot struct {
	m   storage.MemoryStore
	inv map[string]fosite.DeviceRequester
}

func copyMap[K comparable, V any](m map[K]V) map[K]V {
	o := make(map[K]V, len(m))
	for k, v := range m {
		o[k] = v
	}
	return o
}

func takeSnapshot(p *ProxyStore) *snapshot {
	s := &snapshot{inv: copyMap(p.invalidDevice)}
	m := p.M
	s.m.AuthorizeCodes = copyMap(m.AuthorizeCodes)
	s.m.IDSessions = copyMap(m.IDSessions)
	s.m.AccessTokens = copyMap(m.AccessTokens)
	s.m.RefreshTokens = copyMap(m.RefreshTokens)
	s.m.DeviceAuths = copyMap(m.DeviceAuths)
	s.m.PKCES = copyMap(m.PKCES)
	s.m.BlacklistedJTIs = copyMap(m.BlacklistedJTIs)
	s.m.AccessTokenRequestIDs = copyMap(m.AccessTokenRequestIDs)
	s.m.RefreshTokenRequestIDs = copyMap(m.RefreshTokenRequestIDs)
	s.m.DeviceCodesRequestIDs = copyMap(m.DeviceCodesRequestIDs)
	s.m.UserCodesRequestIDs = copyMap(m.UserCodesRequestIDs)
	s.m.PARSessions = copyMap(m.PARSessions)
	return s
}

func (s *snapshot) restore(p *ProxyStore) {
	m := p.M
	m.AuthorizeCodes = s.m.AuthorizeCodes
	m.IDSessions = s.m.IDSessions
	m.AccessTokens = s.m.AccessTokens
	m.RefreshTokens = s.m.RefreshTokens
	m.DeviceAuths = s.m.DeviceAuths
	m.PKCES = s.m.PKCES
	m.BlacklistedJTIs = s.m.BlacklistedJTIs
	m.AccessTokenRequestIDs = s.m.AccessTokenRequestIDs
	m.RefreshTokenRequestIDs = s.m.RefreshTokenRequestIDs
	m.DeviceCodesRequestIDs = s.m.DeviceCodesRequestIDs
	m.UserCodesRequestIDs = s.m.UserCodesRequestIDs
	m.PARSessions = s.m.PARSessions
	p.invalidDevice = s.inv
}

// ------------------------------------------------------------------ canonical dump

// Namer assigns stable mint-order names to random strings (signatures, request ids).
type Namer struct {
	names map[string]string
	n     map[string]int
}

func NewNamer() *Namer { return &Namer{names: map[string]string{}, n: map[string]int{}} }

func (n *Namer) Name(kind, s string) string {
	if v, ok := n.names[s]; ok {
		return v
	}
	n.n[kind]++
	v := fmt.Sprintf("%s#%d", kind, n.n[kind])
	n.names[s] = v
	return v
}
func (n *Namer) Lookup(s string) (string, bool) { v, ok := n.names[s]; return v, ok }

// peekID reads a request's id without the lazy assignment GetID() performs.
func peekID(r fosite.Requester) string {
	v := reflect.ValueOf(r)
	for v.Kind() == reflect.Ptr || v.Kind() == reflect.Interface {
		if v.IsNil() {
			return ""
		}
		v = v.Elem()
	}
	if v.Kind() == reflect.Struct {
		if f := v.FieldByName("ID"); f.IsValid() && f.Kind() == reflect.String {
			return f.String()
		}
	}
	return r.GetID()
}

func renderReq(nm *Namer, r fosite.Requester, epoch time.Time) string {
	if r == nil || isNilReq(r) {
		return "<nil>"
	}
	var sb strings.Builder
	fmt.Fprintf(&sb, "id=%s client=%s", nm.Name("rid", peekID(r)), clientID(r))
	fmt.Fprintf(&sb, " rs=%v gs=%v ra=%v ga=%v", []string(r.GetRequestedScopes()), []string(r.GetGrantedScopes()), []string(r.GetRequestedAudience()), []string(r.GetGrantedAudience()))
	fmt.Fprintf(&sb, " at=%d", int64(r.GetRequestedAt().Sub(epoch)/time.Second))
	if s := r.GetSession(); s != nil && !reflect.ValueOf(s).IsNil() {
		fmt.Fprintf(&sb, " sub=%s", s.GetSubject())
		for _, tt := range []fosite.TokenType{fosite.AccessToken, fosite.RefreshToken, fosite.AuthorizeCode, fosite.IDToken, fosite.PushedAuthorizeRequestContext, fosite.UserCode, fosite.DeviceCode} {
			if e := s.GetExpiresAt(tt); !e.IsZero() {
				fmt.Fprintf(&sb, " exp[%s]=%d", tt, int64(e.Sub(epoch)/time.Second))
			}
		}
	}
	form := r.GetRequestForm()
	keys := make([]string, 0, len(form))
	for k := range form {
		keys = append(keys, k)
	}
	sort.Strings(keys)
	fmt.Fprintf(&sb, " formkeys=%v", keys)
	if dr, ok := r.(fosite.DeviceRequester); ok {
		fmt.Fprintf(&sb, " ucstate=%d", dr.GetUserCodeState())
	}
	return sb.String()
}

func clientID(r fosite.Requester) string {
	if c := r.GetClient(); c != nil {
		return c.GetID()
	}
	return "<nil>"
}

// Dump renders every table that holds grant state. Keys are renamed through nm (names are
// assigned in sorted order of first appearance in the call log, see World.nameLog).
func (p *ProxyStore) Dump(nm *Namer, epoch time.Time) string {
	m := p.M
	var lines []string
	add := func(tbl, key, val string) { lines = append(lines, tbl+"|"+key+"|"+val) }
	for k, v := range m.AuthorizeCodes {
		active := reflect.ValueOf(v).FieldByName("active").Bool()
		add("code", nm.Name("k", k), fmt.Sprintf("active=%v %s", active, renderReq(nm, v.Requester, epoch)))
	}
	for k, v := range m.IDSessions {
		add("oidc", nm.Name("k", k), renderReq(nm, v, epoch))
	}
	for k, v := range m.AccessTokens {
		add("at", nm.Name("k", k), renderReq(nm, v, epoch))
	}
	for k, v := range m.RefreshTokens {
		rv := reflect.ValueOf(v)
		add("rt", nm.Name("k", k), fmt.Sprintf("active=%v atsig=%s %s", rv.FieldByName("active").Bool(), nm.Name("k", rv.FieldByName("accessTokenSignature").String()), renderReq(nm, v.Requester, epoch)))
	}
	for k, v := range m.DeviceAuths {
		add("dev", nm.Name("k", k), renderReq(nm, v, epoch))
	}
	for k, v := range p.invalidDevice {
		add("devinv", nm.Name("k", k), renderReq(nm, v, epoch))
	}
	for k, v := range m.PKCES {
		add("pkce", nm.Name("k", k), renderReq(nm, v, epoch)+" ch="+v.GetRequestForm().Get("code_challenge")+"/"+v.GetRequestForm().Get("code_challenge_method"))
	}
	for k, v := range m.BlacklistedJTIs {
		add("jti", k, fmt.Sprint(int64(v.Sub(epoch)/time.Second)))
	}
	for k, v := range m.AccessTokenRequestIDs {
		add("atid", nm.Name("rid", k), nm.Name("k", v))
	}
	for k, v := range m.RefreshTokenRequestIDs {
		add("rtid", nm.Name("rid", k), nm.Name("k", v))
	}
	for k, v := range m.PARSessions {
		add("par", nm.Name("k", k), renderReq(nm, v, epoch))
	}
	sort.Strings(lines)
	return strings.Join(lines, "\n")
}
