package main

import (
	"context"
	"encoding/base64"
	"encoding/json"
	"fmt"
	"net/http"
	"net/http/httptest"
	"net/url"
	"sort"
	"strings"

	"golang.org/x/net/html"

	"github.com/ory/fosite"
	"github.com/ory/fosite/token/jwt"
)

// Obs is what a user agent / client can observe of one endpoint round trip.
type Obs struct {
	Status   int               `json:"status"`
	Err      string            `json:"err,omitempty"` // RFC error code as seen by the caller
	Desc     string            `json:"desc,omitempty"`
	JSON     map[string]any    `json:"json,omitempty"`
	Location string            `json:"location,omitempty"`
	Query    url.Values        `json:"query,omitempty"`
	Fragment url.Values        `json:"fragment,omitempty"`
	FormPost map[string]string `json:"form_post,omitempty"`
	FormAct  string            `json:"form_action,omitempty"`
	Header   http.Header       `json:"-"`
	Body     string            `json:"-"`
	GoErr    string            `json:"go_err,omitempty"` // error returned by the library call (not client-visible)
}

func (o *Obs) Str(k string) string {
	if o.JSON == nil {
		return ""
	}
	s, _ := o.JSON[k].(string)
	return s
}

// Param returns a response parameter wherever the authorization endpoint put it.
func (o *Obs) Param(k string) string {
	if v := o.Query.Get(k); v != "" {
		return v
	}
	if v := o.Fragment.Get(k); v != "" {
		return v
	}
	return o.FormPost[k]
}

func (o *Obs) OK() bool { return o.Err == "" && o.Status >= 200 && o.Status < 400 }

// Class is a coarse observation class for histograms.
func (o *Obs) Class() string {
	if o.Err != "" {
		return o.Err
	}
	return "ok"
}

func parseRecorder(rec *httptest.ResponseRecorder) *Obs {
	o := &Obs{Status: rec.Code, Header: rec.Header(), Body: rec.Body.String()}
	if loc := rec.Header().Get("Location"); loc != "" {
		o.Location = loc
		if u, err := url.Parse(loc); err == nil {
			o.Query = u.Query()
			o.Fragment, _ = url.ParseQuery(u.EscapedFragment())
		}
		if e := o.Param("error"); e != "" {
			o.Err = e
			o.Desc = o.Param("error_description")
		}
		return o
	}
	ct := rec.Header().Get("Content-Type")
	body := strings.TrimSpace(o.Body)
	if strings.HasPrefix(ct, "text/html") {
		o.FormAct, o.FormPost = parseFormPost(o.Body)
		if e := o.FormPost["error"]; e != "" {
			o.Err = e
			o.Desc = o.FormPost["error_description"]
		}
		return o
	}
	if strings.HasPrefix(body, "{") {
		var m map[string]any
		if err := json.Unmarshal([]byte(body), &m); err == nil {
			o.JSON = m
			if e, ok := m["error"].(string); ok {
				o.Err = e
				o.Desc, _ = m["error_description"].(string)
			}
		}
	}
	if o.Err == "" && o.Status >= 400 {
		o.Err = "http_" + http.StatusText(o.Status)
	}
	return o
}

func parseFormPost(body string) (string, map[string]string) {
	doc, err := html.Parse(strings.NewReader(body))
	if err != nil {
		return "", nil
	}
	action := ""
	vals := map[string]string{}
	var walk func(n *html.Node)
	walk = func(n *html.Node) {
		if n.Type == html.ElementNode {
			switch n.Data {
			case "form":
				for _, a := range n.Attr {
					if a.Key == "action" {
						action = a.Val
					}
				}
			case "input":
				var name, val string
				for _, a := range n.Attr {
					if a.Key == "name" {
						name = a.Val
					}
					if a.Key == "value" {
						val = a.Val
					}
				}
				if name != "" {
					vals[name] = val
				}
			}
		}
		for c := n.FirstChild; c != nil; c = c.NextSibling {
			walk(c)
		}
	}
	walk(doc)
	return action, vals
}

// Auth describes how a client authenticates.
type Auth struct {
	Mode   string // "basic", "post", "none" (public: client_id only in body), "omit" (nothing), "assertion"
	ID     string
	Secret string
	Extra  url.Values // e.g. client_assertion
	Query  url.Values // parameters put into the URL query string of the POST request (not the body)
	Lang   string     // Accept-Language header
}

func BasicAuth(id, secret string) Auth { return Auth{Mode: "basic", ID: id, Secret: secret} }
func PublicAuth(id string) Auth        { return Auth{Mode: "none", ID: id} }

func (w *World) AuthFor(id string) Auth {
	if c, ok := w.Mem.Clients[id]; ok && c.IsPublic() {
		return PublicAuth(id)
	}
	return BasicAuth(id, w.Secrets[id])
}

func (a Auth) apply(req *http.Request, form url.Values) {
	switch a.Mode {
	case "basic":
		req.Header.Set("Authorization", "Basic "+base64.StdEncoding.EncodeToString([]byte(url.QueryEscape(a.ID)+":"+url.QueryEscape(a.Secret))))
	case "post":
		form.Set("client_id", a.ID)
		form.Set("client_secret", a.Secret)
	case "none":
		form.Set("client_id", a.ID)
	case "omit":
	case "raw":
		req.Header.Set("Authorization", a.ID)
	}
	for k, vs := range a.Extra {
		form[k] = vs
	}
	if a.Lang != "" {
		req.Header.Set("Accept-Language", a.Lang)
	}
}

func postReq(path string, form url.Values, a Auth) *http.Request {
	f := cloneValues(form)
	if f == nil {
		f = url.Values{}
	}
	req := httptest.NewRequest("POST", "https://issuer.example"+path, nil)
	a.apply(req, f)
	target := "https://issuer.example" + path
	if len(a.Query) > 0 {
		target += "?" + a.Query.Encode()
	}
	req = httptest.NewRequest("POST", target, strings.NewReader(f.Encode()))
	req.Header.Set("Content-Type", "application/x-www-form-urlencoded")
	a.apply(req, url.Values{})
	return req
}

// ---- token endpoint

// TokenOpts tunes what the integrator code around the library does.
type TokenOpts struct {
	Session  *Sess
	GrantAll bool // grant every requested scope/audience (client_credentials, password, jwt-bearer)
	// GrantRequested: an integrator that grants whatever the access request says was requested, for every grant type
	// (the pattern of the reference token endpoint: `if accessRequest.GetRequestedScopes().Has("fosite") { GrantScope }`)
	GrantRequested bool
	// GrantScopes narrows what the integrator grants of the requested scopes where it grants at the token endpoint
	GrantScopes func(requested []string) []string
}

func (w *World) Token(form url.Values, a Auth) *Obs {
	return w.TokenWith(form, a, TokenOpts{GrantAll: true})
}

func (w *World) TokenWith(form url.Values, a Auth, opt TokenOpts) *Obs {
	req := postReq("/token", form, a)
	rec := httptest.NewRecorder()
	ctx := w.newCtx()
	var sess fosite.Session = w.NewSession("")
	if opt.Session != nil {
		sess = opt.Session
	}
	ar, err := w.Prov.NewAccessRequest(ctx, req, sess)
	if err != nil {
		w.Prov.WriteAccessError(ctx, rec, ar, err)
		o := parseRecorder(rec)
		o.GoErr = errString(err)
		return o
	}
	if opt.GrantAll {
		gt := ar.GetGrantTypes()
		if opt.GrantRequested || gt.ExactOne("client_credentials") || gt.ExactOne("password") || gt.ExactOne("urn:ietf:params:oauth:grant-type:jwt-bearer") {
			scopes := []string(ar.GetRequestedScopes())
			if opt.GrantScopes != nil {
				scopes = opt.GrantScopes(scopes)
			}
			for _, s := range scopes {
				ar.GrantScope(s)
			}
			for _, s := range ar.GetRequestedAudience() {
				ar.GrantAudience(s)
			}
		}
	}
	resp, err := w.Prov.NewAccessResponse(ctx, ar)
	if err != nil {
		w.Prov.WriteAccessError(ctx, rec, ar, err)
		o := parseRecorder(rec)
		o.GoErr = errString(err)
		return o
	}
	w.Prov.WriteAccessResponse(ctx, rec, ar, resp)
	return parseRecorder(rec)
}

// Two-phase token endpoint: NewAccessRequest now, NewAccessResponse later (two HTTP requests that overlap
// in a server interleave exactly like this at the library's API).
type PendingToken struct {
	ar  fosite.AccessRequester
	err error
	obs *Obs
}

func (w *World) TokenBegin(form url.Values, a Auth) *PendingToken {
	req := postReq("/token", form, a)
	ctx := w.newCtx()
	ar, err := w.Prov.NewAccessRequest(ctx, req, w.NewSession(""))
	p := &PendingToken{ar: ar, err: err}
	if err != nil {
		rec := httptest.NewRecorder()
		w.Prov.WriteAccessError(ctx, rec, ar, err)
		p.obs = parseRecorder(rec)
		p.obs.GoErr = errString(err)
	}
	return p
}

func (w *World) TokenFinish(p *PendingToken) *Obs {
	if p.obs != nil {
		return p.obs
	}
	ctx := w.newCtx()
	rec := httptest.NewRecorder()
	resp, err := w.Prov.NewAccessResponse(ctx, p.ar)
	if err != nil {
		w.Prov.WriteAccessError(ctx, rec, p.ar, err)
		o := parseRecorder(rec)
		o.GoErr = errString(err)
		p.obs = o
		return o
	}
	w.Prov.WriteAccessResponse(ctx, rec, p.ar, resp)
	p.obs = parseRecorder(rec)
	return p.obs
}

// TokenAbandoned: the integrator validates the token request (NewAccessRequest) and then declines
// to answer it (its own policy said no): no response is ever populated.
func (w *World) TokenAbandoned(form url.Values, a Auth) error {
	req := postReq("/token", form, a)
	_, err := w.Prov.NewAccessRequest(w.newCtx(), req, w.NewSession(""))
	return err
}

func errString(err error) string {
	if err == nil {
		return ""
	}
	rfc := fosite.ErrorToRFC6749Error(err)
	return rfc.ErrorField + ": " + rfc.HintField + " | " + rfc.DebugField
}

// ---- authorization endpoint

type AuthzOpts struct {
	Lang        string // Accept-Language header
	Subject     string
	GrantScopes func(requested []string) []string // nil => all requested
	GrantAud    func(requested []string) []string // nil => all requested
	Session     *Sess
	Deny        bool                 // resource owner denies: integrator writes access_denied
	Prep        func(fosite.Session) // applied to the session just before NewAuthorizeResponse
}

func (w *World) Authorize(params url.Values, opt AuthzOpts) *Obs {
	req := httptest.NewRequest("GET", "https://issuer.example/auth?"+params.Encode(), nil)
	return w.authorizeReq(req, opt)
}

func (w *World) AuthorizeRaw(rawQuery string, opt AuthzOpts) *Obs {
	req := httptest.NewRequest("GET", "https://issuer.example/auth", nil)
	req.URL.RawQuery = rawQuery
	return w.authorizeReq(req, opt)
}

func (w *World) authorizeReq(req *http.Request, opt AuthzOpts) *Obs {
	if opt.Lang != "" {
		req.Header.Set("Accept-Language", opt.Lang)
	}
	rec := httptest.NewRecorder()
	ctx := w.newCtx()
	ar, err := w.Prov.NewAuthorizeRequest(ctx, req)
	if err != nil {
		w.Prov.WriteAuthorizeError(ctx, rec, ar, err)
		o := parseRecorder(rec)
		o.GoErr = errString(err)
		return o
	}
	if opt.Deny {
		w.Prov.WriteAuthorizeError(ctx, rec, ar, fosite.ErrAccessDenied)
		return parseRecorder(rec)
	}
	scopes := []string(ar.GetRequestedScopes())
	if opt.GrantScopes != nil {
		scopes = opt.GrantScopes(scopes)
	}
	for _, s := range scopes {
		ar.GrantScope(s)
	}
	auds := []string(ar.GetRequestedAudience())
	if opt.GrantAud != nil {
		auds = opt.GrantAud(auds)
	}
	for _, a := range auds {
		ar.GrantAudience(a)
	}
	var sess fosite.Session
	if opt.Session != nil {
		sess = opt.Session
	} else {
		sub := opt.Subject
		if sub == "" {
			sub = "user-1"
		}
		sess = w.NewSession(sub)
		if os, ok := sess.(interface{ IDTokenClaims() *jwt.IDTokenClaims }); ok {
			os.IDTokenClaims().AuthTime = w.now.Truncate(1e9)
			os.IDTokenClaims().RequestedAt = w.now.Truncate(1e9)
		}
	}
	if opt.Prep != nil {
		opt.Prep(sess)
	}
	resp, err := w.Prov.NewAuthorizeResponse(ctx, ar, sess)
	if err != nil {
		w.Prov.WriteAuthorizeError(ctx, rec, ar, err)
		o := parseRecorder(rec)
		o.GoErr = errString(err)
		return o
	}
	w.Prov.WriteAuthorizeResponse(ctx, rec, ar, resp)
	return parseRecorder(rec)
}

// ---- introspection

func (w *World) Introspect(token, hint, scope string, caller Auth, bearer string) *Obs {
	form := url.Values{"token": {token}}
	if hint != "" {
		form.Set("token_type_hint", hint)
	}
	if scope != "" {
		form.Set("scope", scope)
	}
	req := postReq("/introspect", form, caller)
	if bearer != "" {
		req.Header.Set("Authorization", "Bearer "+bearer)
	}
	rec := httptest.NewRecorder()
	ctx := w.newCtx()
	ir, err := w.Prov.NewIntrospectionRequest(ctx, req, w.NewSession(""))
	if err != nil {
		w.Prov.WriteIntrospectionError(ctx, rec, err)
		o := parseRecorder(rec)
		o.GoErr = errString(err)
		return o
	}
	w.Prov.WriteIntrospectionResponse(ctx, rec, ir)
	o := parseRecorder(rec)
	if o.JSON != nil && ir.IsActive() {
		// the HTTP writer does not render the token kind; the responder carries it
		o.JSON["_token_use"] = string(ir.GetTokenUse())
	}
	return o
}

// Active introspects as client A-independent "inspector" client and reports liveness.
func (w *World) Active(token string) (bool, *Obs) {
	o := w.Introspect(token, "", "", w.AuthFor("I"), "")
	act, _ := o.JSON["active"].(bool)
	return act, o
}

// ---- revocation

func (w *World) Revoke(token, hint string, caller Auth) *Obs {
	form := url.Values{"token": {token}}
	if hint != "" {
		form.Set("token_type_hint", hint)
	}
	req := postReq("/revoke", form, caller)
	rec := httptest.NewRecorder()
	ctx := w.newCtx()
	err := w.Prov.NewRevocationRequest(ctx, req)
	w.Prov.WriteRevocationResponse(ctx, rec, err)
	o := parseRecorder(rec)
	o.GoErr = errString(err)
	return o
}

// RevokeClass is what the revocation endpoint told its caller: "" for 200 OK (accepted), else the error code of
// the body (or the bare status). The library-level error (GoErr) is deliberately not consulted: C08 is stated for
// the endpoint's answer.
func (o *Obs) RevokeClass() string {
	if o.Status == 200 {
		return ""
	}
	if o.Err != "" {
		return o.Err
	}
	return fmt.Sprintf("http-%d", o.Status)
}

// ---- PAR

func (w *World) PAR(form url.Values, a Auth) *Obs {
	req := postReq("/par", form, a)
	rec := httptest.NewRecorder()
	ctx := w.newCtx()
	ar, err := w.Prov.NewPushedAuthorizeRequest(ctx, req)
	if err != nil {
		w.Prov.WritePushedAuthorizeError(ctx, rec, ar, err)
		o := parseRecorder(rec)
		o.GoErr = errString(err)
		return o
	}
	resp, err := w.Prov.NewPushedAuthorizeResponse(ctx, ar, w.NewSession(""))
	if err != nil {
		w.Prov.WritePushedAuthorizeError(ctx, rec, ar, err)
		o := parseRecorder(rec)
		o.GoErr = errString(err)
		return o
	}
	w.Prov.WritePushedAuthorizeResponse(ctx, rec, ar, resp)
	return parseRecorder(rec)
}

// ---- device authorization

func (w *World) DeviceAuth(form url.Values, a Auth) *Obs {
	req := postReq("/device/auth", form, a)
	rec := httptest.NewRecorder()
	ctx := w.newCtx()
	dr, err := w.Prov.NewDeviceRequest(ctx, req)
	if err != nil {
		w.Prov.WriteAccessError(ctx, rec, dr, err)
		o := parseRecorder(rec)
		o.GoErr = errString(err)
		return o
	}
	for _, s := range dr.GetRequestedScopes() {
		dr.GrantScope(s)
	}
	for _, a := range dr.GetRequestedAudience() {
		dr.GrantAudience(a)
	}
	sess := w.NewSession("")
	resp, err := w.Prov.NewDeviceResponse(ctx, dr, sess)
	if err != nil {
		w.Prov.WriteAccessError(ctx, rec, dr, err)
		o := parseRecorder(rec)
		o.GoErr = errString(err)
		return o
	}
	w.Prov.WriteDeviceResponse(ctx, rec, dr, resp)
	return parseRecorder(rec)
}

func sortedKeys[V any](m map[string]V) []string {
	ks := make([]string, 0, len(m))
	for k := range m {
		ks = append(ks, k)
	}
	sort.Strings(ks)
	return ks
}

// newCtx: the context of one request. CancelRequest cancels the context of the request in progress (a client that
// went away, a deadline that fired) — used by the fault engine.
func (w *World) newCtx() context.Context {
	ctx, cancel := context.WithCancel(context.Background())
	w.cancelReq = cancel
	return ctx
}

func (w *World) CancelRequest() {
	if w.cancelReq != nil {
		w.cancelReq()
	}
}
