package main

import (
	"encoding/json"
	"fmt"
	"net/url"
	"sort"
	"strings"

	"github.com/ory/fosite"
)

// c09Grid: in the current state, query the introspection endpoint for every token ever seen
// (and mutants of it) under the hint x required-scope x caller grid and compare with the model.
func (f *Fam) c09Grid(after Op) {
	if f.quiet {
		return
	}
	w := f.W
	f.inSweep = true
	defer func() { f.inSweep = false }()
	strategy := w.P.ScopeStrategy
	if strategy == "" {
		strategy = "hierarchic"
	}
	// a live access token usable as bearer credential, and a dead one
	var liveAT, deadAT, anyRT *MTok
	for _, t := range f.M.Toks {
		l, dc := f.expLiveRaw(t)
		if dc {
			continue
		}
		if t.Kind == "at" && l && liveAT == nil {
			liveAT = t
		}
		if t.Kind == "at" && !l && t.Status != "unknown-dead" && deadAT == nil {
			deadAT = t
		}
		if t.Kind == "rt" && l && anyRT == nil {
			anyRT = t
		}
	}
	hints := []string{"", "access_token", "refresh_token", "garbage"}
	scopes := []string{"", "a", "zzz", "a zzz", "offline a", "a.b", "*", "a ", "openid", "photos"}
	for _, t := range f.M.Toks {
		if t.Status == "unknown-dead" {
			continue
		}
		live, dc := f.expLive(t)
		if dc {
			continue
		}
		g := f.M.Grants[t.Grant]
		for _, hint := range hints {
			for _, sc := range scopes {
				covered, sdc := true, false
				for _, s := range strings.Fields(sc) {
					ok, d := refScope(strategy, g.Scopes, s)
					if d {
						sdc = true
					}
					if !ok {
						covered = false
					}
				}
				if sdc {
					f.Res.DontCare++
					continue
				}
				want := live && covered
				o := w.Introspect(t.Val, hint, sc, w.AuthFor("I"), "")
				f.Res.Evals++
				act, _ := o.JSON["active"].(bool)
				if act != want {
					f.violate("C09", fmt.Sprintf("C09/grid/active=%v-want=%v/%s/status=%s/hint=%s/scope-covered=%v", act, want, t.Kind, t.Status, hint, covered),
						fmt.Sprintf("introspection(%s, hint=%q, scope=%q) by an authenticated client reports active=%v; model: live=%v, required scopes covered=%v (granted %v, strategy %s)", t.Name, hint, sc, act, live, covered, g.Scopes, strategy),
						fmt.Sprintf("active=%v", want), o.JSON)
				}
				if !act {
					if len(o.JSON) != 1 || o.Err != "" {
						f.violate("C09", "C09/inactive-body-not-bare", fmt.Sprintf("inactive introspection answer for %s carries more than active=false", t.Name), `{"active":false}`, o.Body)
					}
				} else {
					f.checkPayload(t, o)
				}
			}
		}
		// caller credential grid (token under test fixed, default hint/scope)
		type caller struct {
			name   string
			auth   Auth
			bearer string
			valid  bool
		}
		callers := []caller{
			{"wrong-secret", BasicAuth("I", "nope"), "", false},
			{"other-clients-secret", BasicAuth("I", "secret-A"), "", false},
			{"unknown-client", BasicAuth("nobody", "secret-I"), "", false},
			{"public-client-id-with-some-secret", BasicAuth("P", "anything-at-all"), "", false},
			{"none", Auth{Mode: "omit"}, "", false},
			{"post-body-only", Auth{Mode: "post", ID: "I", Secret: "secret-I"}, "", false},
			{"bearer-same-token", Auth{Mode: "omit"}, t.Val, false},
			{"bearer-garbage", Auth{Mode: "omit"}, "ory_at_garbage.garbage", false},
			{"bearer-same-token-without-prefix", Auth{Mode: "omit"}, strings.TrimPrefix(t.Val, "ory_at_"), false},
			{"bearer-same-token-other-base64-spelling", Auth{Mode: "omit"}, c09AltSpelling(t.Val), false},
		}
		if liveAT != nil && liveAT != t {
			callers = append(callers, caller{"bearer-other-live-at", Auth{Mode: "omit"}, liveAT.Val, true})
		}
		if deadAT != nil && deadAT != t {
			callers = append(callers, caller{"bearer-dead-at", Auth{Mode: "omit"}, deadAT.Val, false})
		}
		if anyRT != nil && anyRT != t {
			callers = append(callers, caller{"bearer-refresh-token", Auth{Mode: "omit"}, anyRT.Val, false})
		}
		for _, c := range callers {
			o := w.Introspect(t.Val, "", "", c.auth, c.bearer)
			f.Res.Evals++
			act, _ := o.JSON["active"].(bool)
			if c.valid {
				if act != live {
					f.violate("C09", fmt.Sprintf("C09/caller=%s/active=%v-want=%v/%s", c.name, act, live, t.Kind), fmt.Sprintf("introspection of %s by caller %s reports active=%v, model %v", t.Name, c.name, act, live), fmt.Sprint(live), o.JSON)
				}
				continue
			}
			if c.name == "post-body-only" {
				// credentials in the body instead of the Authorization header: the statement only
				// demands that unauthenticated callers learn nothing; a refusal is what the code does
				if act {
					f.Res.DontCare++
				}
				continue
			}
			leak := act || o.Str("client_id") != "" || o.Str("scope") != "" || o.Str("sub") != ""
			if leak || o.Err == "" {
				f.violate("C09", fmt.Sprintf("C09/unauthenticated-caller-answered/caller=%s/%s/live=%v", c.name, t.Kind, live),
					fmt.Sprintf("introspection of %s answered caller %s (no valid client credentials / no valid different active access token): err=%q body=%s", t.Name, c.name, o.Err, strings.TrimSpace(o.Body)), "error, no token data", o.JSON)
			}
		}
		// mutants of this token are never active
		for mi, mv := range tokenMutants(t.Val, f.M.Toks) {
			o := w.Introspect(mv, "", "", w.AuthFor("I"), "")
			f.Res.Evals++
			if act, _ := o.JSON["active"].(bool); act {
				f.violate("C09", fmt.Sprintf("C09/mutant-active/%s/mutation=%d", t.Kind, mi), fmt.Sprintf("a token derived from %s by mutation #%d introspects active", t.Name, mi), "inactive", mv)
			}
		}
	}
}

// expLiveRaw ignores the refresh-token-validation switch.
func (f *Fam) expLiveRaw(t *MTok) (bool, bool) {
	s := f.inSweep
	f.inSweep = false
	l, dc := f.expLive(t)
	f.inSweep = s
	return l, dc
}

// tokenMutants: a fixed family of near-misses of an opaque or JWT token.
func tokenMutants(tok string, all []*MTok) []string {
	var out []string
	flip := func(c byte) byte {
		if c == 'A' {
			return 'Q'
		}
		return 'A'
	}
	i := strings.LastIndex(tok, ".")
	if i < 0 || i+2 >= len(tok) {
		return nil
	}
	// 0: change a character in the middle of the signature part
	b := []byte(tok)
	m := i + 1 + (len(tok)-i-1)/2
	b[m] = flip(b[m])
	out = append(out, string(b))
	// 1: change a character of the part before the signature
	b = []byte(tok)
	m = i - 2
	b[m] = flip(b[m])
	out = append(out, string(b))
	// 2: truncated signature
	out = append(out, tok[:len(tok)-3])
	// 3: no signature
	out = append(out, tok[:i+1])
	// 4: own body with the signature of another token of the same kind
	for _, o := range all {
		if o.Val != tok && strings.HasPrefix(o.Val, tok[:6]) {
			j := strings.LastIndex(o.Val, ".")
			out = append(out, tok[:i]+o.Val[j:])
			break
		}
	}
	return out
}

// c09AltSpelling: another string that decodes to the same token (a line break inside the random part, which the
// lenient base64 decoder of the HMAC strategy ignores); the token itself for JWTs.
func c09AltSpelling(tok string) string {
	pfx, key, sig := c06Split2(tok)
	if key == "" || sig == "" || strings.Count(tok, ".") != 1 || len(key) < 8 {
		return tok
	}
	return pfx + key[:4] + "\n" + key[4:] + "." + sig
}

// c09Stateless: JWT access tokens introspected by the stateless validator alone (no storage lookup). What the answer
// reports about an active token must be the token's real data.
func c09Stateless(res *WRes) {
	w := NewWorld(Profile{JWTAccess: true, StatelessJWTIntrospectionOnly: true})
	if a, ok := w.Mem.Clients["A"].(*fosite.DefaultClient); ok {
		a.Audience = []string{"https://api.example/a", "https://api.example/b"}
	}
	for _, aud := range []string{"", "https://api.example/a", "https://api.example/a https://api.example/b"} {
		for _, grant := range []string{"client_credentials", "password"} {
			f := url.Values{"grant_type": {grant}, "scope": {"a"}}
			if grant == "password" {
				f.Set("username", "peter")
				f.Set("password", "pw-peter")
			}
			if aud != "" {
				f.Set("audience", aud)
			}
			to := w.Token(f, w.AuthFor("A"))
			at := to.Str("access_token")
			if at == "" {
				res.note("sanity:stateless-mint-failed:" + to.Class())
				continue
			}
			_, claims, err := decodeJWT(at)
			if err != nil {
				res.note("sanity:stateless-token-not-a-jwt")
				continue
			}
			o := w.Introspect(at, "", "", w.AuthFor("I"), "")
			res.Evals++
			res.Trans++
			res.distinct("stateless|" + grant + "|" + aud)
			if act, _ := o.JSON["active"].(bool); !act {
				res.note("sanity:stateless-genuine-token-inactive")
				continue
			}
			res.note("stateless-payload-checked")
			var want []string
			if l, ok := claims["aud"].([]any); ok {
				for _, x := range l {
					want = append(want, fmt.Sprint(x))
				}
			}
			var got []string
			if l, ok := o.JSON["aud"].([]any); ok {
				for _, x := range l {
					got = append(got, fmt.Sprint(x))
				}
			}
			sort.Strings(want)
			sort.Strings(got)
			if strings.Join(want, " ") != strings.Join(got, " ") {
				res.violate(Violation{Property: "C09", Fingerprint: "C09/stateless-jwt/audience-not-reported", What: fmt.Sprintf("stateless JWT introspection of an active token reports audience %v, the token carries %v", got, want), Engine: "c09stateless", Case: map[string]string{}, Expected: strings.Join(want, " "), Observed: o.JSON})
			}
			if sc := strings.Fields(o.Str("scope")); strings.Join(sc, " ") != "a" {
				res.violate(Violation{Property: "C09", Fingerprint: "C09/stateless-jwt/scope-wrong", What: fmt.Sprintf("stateless JWT introspection reports scope %v, the token was granted [a]", sc), Engine: "c09stateless", Case: map[string]string{}, Expected: "a", Observed: o.JSON})
			}
			if e, ok := o.JSON["exp"].(float64); ok {
				if ce, _ := claims["exp"].(float64); ce != e {
					res.violate(Violation{Property: "C09", Fingerprint: "C09/stateless-jwt/exp-wrong", What: fmt.Sprintf("stateless JWT introspection reports exp %v, the token carries %v", e, ce), Engine: "c09stateless", Case: map[string]string{}, Expected: fmt.Sprint(ce), Observed: o.JSON})
				}
			}
		}
	}
}

func init() {
	registerWorker("c09stateless", func(json.RawMessage) (any, error) {
		res := &WRes{}
		c09Stateless(res)
		return res, nil
	})
	replayFns["c09stateless"] = func(json.RawMessage) ([]Violation, error) {
		res := &WRes{}
		c09Stateless(res)
		return res.Viol, nil
	}
}
