package main

import (
	"encoding/json"
	"fmt"
	"os"
	"sort"
	"strings"
	"time"
)

// Scenario: a closed concurrent driver. Build returns a fresh world, the thread bodies and a
// judge that is run after the execution completed (all threads finished).
type Scenario struct {
	Name  string
	Prop  string
	Build func() (w *World, bodies []func(), judge func(x *Exec) []Violation)
	// NoRaces: the scenario does not claim race freedom (C15 only looks at outcomes)
	NoRaces bool
}

var scenarios = map[string]Scenario{}

func registerScenario(s Scenario) { scenarios[s.Name] = s }

type schedCase struct {
	Scenario   string `json:"scenario"`
	LockPoints bool   `json:"lock_granularity"`
	Bound      int    `json:"preemption_bound"`
	MaxExecs   int    `json:"max_execs,omitempty"`
	Schedule   []int  `json:"schedule,omitempty"`
	// sharding: explore only the subtree below this prefix
	Prefix      []int `json:"prefix,omitempty"`
	OnlyDefault bool  `json:"only_default,omitempty"` // just the non-preemptive execution
}

func schedRunOnce(sc Scenario, c schedCase, prefix []int) (*Exec, []Violation) {
	w, bodies, judge := sc.Build()
	s := &Sched{LockPoints: c.LockPoints}
	w.Store.NoLog = false
	w.Store.Before = func(call *Call) error {
		call.Thread = s.cur
		s.Point("store:" + call.Name)
		return nil
	}
	w.Rand.Yield = func() { s.Point("rand") }
	x := s.Run(bodies, prefix)
	w.Store.Before = nil
	w.Rand.Yield = nil
	var vs []Violation
	mk := func(fp, what string, obs any) Violation {
		cc := c
		cc.Schedule = append([]int(nil), x.Choices...)
		cc.Prefix = nil
		cc.MaxExecs = 0
		return Violation{Property: sc.Prop, Fingerprint: fp, What: what + fmt.Sprintf(" | scenario %s, schedule %v", sc.Name, compactSchedule(x)), Engine: "sched", Case: cc, Expected: "", Observed: obs}
	}
	if x.Diverged {
		return x, []Violation{mk(sc.Prop+"/harness-divergence/"+sc.Name, "replaying a recorded schedule prefix diverged (nondeterminism outside the scheduler)", x.Choices)}
	}
	if x.Deadlock {
		vs = append(vs, mk(sc.Prop+"/deadlock/"+sc.Name, "deadlock: "+x.DeadInfo, x.DeadInfo))
		return x, vs
	}
	if x.Panic != "" {
		first := strings.SplitN(x.Panic, "\n", 2)[0]
		vs = append(vs, mk(sc.Prop+"/panic/"+sc.Name+"/"+shortHash(first)[:6], "panic in a request goroutine: "+first, x.Panic))
		return x, vs
	}
	if !sc.NoRaces {
		for _, r := range x.Races {
			vs = append(vs, mk(sc.Prop+"/data-race/"+r.Key(), fmt.Sprintf("data race (%s) on %s between %s and %s: no happens-before edge orders the two accesses", r.Kind, r.Field, r.A, r.B), r))
		}
	}
	if judge != nil {
		for _, v := range judge(x) {
			vv := mk(v.Fingerprint, v.What, v.Observed)
			vv.Expected = v.Expected
			vs = append(vs, vv)
		}
	}
	return x, vs
}

func compactSchedule(x *Exec) string {
	// thread ids in order of execution, run-length encoded
	var parts []string
	last, n := -1, 0
	for _, p := range x.Points {
		t := p.Enabled[p.Chosen]
		if t == last {
			n++
			continue
		}
		if last >= 0 {
			parts = append(parts, fmt.Sprintf("T%dx%d", last, n))
		}
		last, n = t, 1
	}
	if last >= 0 {
		parts = append(parts, fmt.Sprintf("T%dx%d", last, n))
	}
	return strings.Join(parts, " ")
}

func schedExplore(c schedCase, res *WRes) {
	sc, ok := scenarios[c.Scenario]
	if !ok {
		panic("unknown scenario " + c.Scenario)
	}
	outcomes := map[string]int{}
	// a shard that is still exploring after 5 minutes stops and reports a cap (the pool's watchdog, which is meant
	// for workers that block for ever, fires at 10)
	e := &Explorer{Bound: c.Bound, MaxExecs: c.MaxExecs, MaxWall: 5 * time.Minute}
	var lastV []Violation
	e.run = func(prefix []int) *Exec {
		x, vs := schedRunOnce(sc, c, prefix)
		lastV = vs
		return x
	}
	e.visit = func(x *Exec) {
		res.Evals++
		res.Trans += len(x.Points)
		res.Traces++
		for _, v := range lastV {
			res.violate(v)
		}
		outcomes[compactOutcome(x, lastV)]++
	}
	if c.OnlyDefault {
		x := e.run(nil)
		e.Execs++
		e.MaxPoints = len(x.Points)
		e.visit(x)
	} else {
		e.explore(c.Prefix)
	}
	res.States += e.Execs
	if e.Capped {
		res.Capped = true
		res.note("capped:" + c.Scenario)
	}
	for o, n := range outcomes {
		res.class(c.Scenario + ":" + o)
		_ = n
		res.distinct(c.Scenario + "|" + fmt.Sprint(c.LockPoints) + "|" + o)
	}
	res.note(fmt.Sprintf("max-points:%s:%d", c.Scenario, e.MaxPoints))
	res.sample(map[string]any{"scenario": c.Scenario, "lock_granularity": c.LockPoints, "preemption_bound": c.Bound, "executions": e.Execs, "max_scheduling_points": e.MaxPoints, "distinct_outcomes": len(outcomes)})
}

// outcome label of an execution; scenario judges put their observation into Exec via exec notes
func compactOutcome(x *Exec, vs []Violation) string {
	o := x.DeadInfo
	if x.Panic != "" {
		o = "panic"
	}
	if len(vs) > 0 {
		var f []string
		for _, v := range vs {
			f = append(f, v.Fingerprint)
		}
		sort.Strings(f)
		o += "viol:" + shortHash(strings.Join(f, ","))[:6]
	}
	if n, ok := execNotes[x]; ok {
		o += n
		delete(execNotes, x)
	}
	return o
}

// execNotes lets a judge label the observable outcome of an execution (for the distinct-outcome count).
var execNotes = map[*Exec]string{}

func init() {
	registerWorker("sched", func(arg json.RawMessage) (any, error) {
		var c schedCase
		if err := json.Unmarshal(arg, &c); err != nil {
			return nil, err
		}
		res := &WRes{}
		schedExplore(c, res)
		return res, nil
	})
	replayFns["sched"] = func(raw json.RawMessage) ([]Violation, error) {
		var c schedCase
		if err := json.Unmarshal(raw, &c); err != nil {
			return nil, err
		}
		sc, ok := scenarios[c.Scenario]
		if !ok {
			return nil, fmt.Errorf("unknown scenario %s", c.Scenario)
		}
		// replay twice: identical observations or the artefact is not trusted
		x1, v1 := schedRunOnce(sc, c, c.Schedule)
		x2, v2 := schedRunOnce(sc, c, c.Schedule)
		if fmt.Sprint(x1.Choices) != fmt.Sprint(x2.Choices) || len(v1) != len(v2) {
			return nil, fmt.Errorf("schedule replay is not deterministic")
		}
		return v1, nil
	}
}

// schedShards: first-level subtrees of a scenario's exploration (one job per alternative at the first few points).
func schedShards(base schedCase) []any {
	// run the default schedule once in-process to learn the shape of the first points
	if os.Getenv("VERIF_NOSHARD") != "" {
		return []any{base}
	}
	sc := scenarios[base.Scenario]
	x, _ := schedRunOnce(sc, base, nil)
	var jobs []any
	// job 0: the default execution subtree restricted to "no deviation at points < K" is hard to express;
	// instead shard by the FIRST deviation point: prefix = default choices up to i, then alt.
	// The root job explores with an empty prefix but a bound of 0 deviations is not expressible either, so we
	// simply split the first deviation across jobs and let each job continue below it.
	pre := 0
	jobs = append(jobs, schedCase{Scenario: base.Scenario, LockPoints: base.LockPoints, Bound: base.Bound, OnlyDefault: true})
	for i, p := range x.Points {
		for alt := 1; alt < len(p.Enabled); alt++ {
			cost := pre
			if p.RunningEnabled {
				cost++
			}
			if base.Bound >= 0 && cost > base.Bound {
				continue
			}
			c := base
			c.Prefix = append(append([]int(nil), x.Choices[:i]...), alt)
			jobs = append(jobs, c)
		}
		if p.RunningEnabled && p.Chosen != 0 {
			pre++
		}
	}
	return jobs
}
