package main

import (
	"context"
	"encoding/json"
	"errors"
	"fmt"
	"net/http"
	"net/http/httptest"
	"net/url"
	"sort"
	"strings"
	"time"
	"unicode/utf8"

	"golang.org/x/net/html"

	"github.com/hashicorp/go-retryablehttp"
	"github.com/ory/fosite"
	"github.com/ory/fosite/storage"
)

// C20 — responses leak nothing and storage never sees a secret.

var c20Errors = map[string]*fosite.RFC6749Error{
	"ErrSerializationFailure": fosite.ErrSerializationFailure, "ErrUnknownRequest": fosite.ErrUnknownRequest,
	"ErrRequestForbidden": fosite.ErrRequestForbidden, "ErrInvalidRequest": fosite.ErrInvalidRequest, "ErrUnauthorizedClient": fosite.ErrUnauthorizedClient, "ErrAccessDenied": fosite.ErrAccessDenied,
	"ErrUnsupportedResponseType": fosite.ErrUnsupportedResponseType, "ErrUnsupportedResponseMode": fosite.ErrUnsupportedResponseMode, "ErrInvalidScope": fosite.ErrInvalidScope, "ErrServerError": fosite.ErrServerError,
	"ErrTemporarilyUnavailable": fosite.ErrTemporarilyUnavailable, "ErrUnsupportedGrantType": fosite.ErrUnsupportedGrantType, "ErrInvalidGrant": fosite.ErrInvalidGrant, "ErrInvalidClient": fosite.ErrInvalidClient,
	"ErrInvalidState": fosite.ErrInvalidState, "ErrMisconfiguration": fosite.ErrMisconfiguration, "ErrInsufficientEntropy": fosite.ErrInsufficientEntropy, "ErrNotFound": fosite.ErrNotFound,
	"ErrRequestUnauthorized": fosite.ErrRequestUnauthorized, "ErrTokenSignatureMismatch": fosite.ErrTokenSignatureMismatch, "ErrInvalidTokenFormat": fosite.ErrInvalidTokenFormat, "ErrTokenExpired": fosite.ErrTokenExpired,
	"ErrScopeNotGranted": fosite.ErrScopeNotGranted, "ErrTokenClaim": fosite.ErrTokenClaim, "ErrInactiveToken": fosite.ErrInactiveToken, "ErrLoginRequired": fosite.ErrLoginRequired,
	"ErrInteractionRequired": fosite.ErrInteractionRequired, "ErrConsentRequired": fosite.ErrConsentRequired, "ErrRequestNotSupported": fosite.ErrRequestNotSupported, "ErrRequestURINotSupported": fosite.ErrRequestURINotSupported,
	"ErrRegistrationNotSupported": fosite.ErrRegistrationNotSupported, "ErrInvalidRequestURI": fosite.ErrInvalidRequestURI, "ErrInvalidRequestObject": fosite.ErrInvalidRequestObject, "ErrJTIKnown": fosite.ErrJTIKnown,
	"ErrAuthorizationPending": fosite.ErrAuthorizationPending, "ErrSlowDown": fosite.ErrSlowDown, "ErrDeviceExpiredToken": fosite.ErrDeviceExpiredToken,
	"plain-go-error": nil,
}

var c20Frags = []string{"", `"`, `\`, `<script>alert(1)</script>`, `"><img src=x onerror=alert(1)>`, `&access_token=stolen&x=`, `#frag`, "\r\nSet-Cookie: x=1", "\x00", "\xff\xfe", " ", "'", `{{.}}`, `%0d%0a`, "</form><form action=https://evil.example>", strings.Repeat("A", 3000)}

var c20Writers = []string{"access", "authorize-query", "authorize-fragment", "authorize-form_post", "authorize-direct", "introspection", "revocation", "par", "device"}

type c20Case struct {
	Err    string `json:"error"`
	Frag1  int    `json:"fragment_1"`
	Frag2  int    `json:"fragment_2"`
	Frag3  int    `json:"fragment_3,omitempty"`
	Legacy bool   `json:"legacy_format"`
	Debug  bool   `json:"debug_exposed"`
	Writer string `json:"writer"`
}

const c20DebugMarker = "DEBUGMARKER7731"
const c20HintMarker = "HINTMARKER4402"

func c20RunErr(c c20Case, res *WRes) {
	w := NewWorld(Profile{Debug: c.Debug, LegacyErrors: c.Legacy})
	viol := func(fp, what, exp string, obs any) {
		res.violate(Violation{Property: "C20", Fingerprint: fp, What: what, Engine: "c20err", Case: c, Expected: exp, Observed: obs})
	}
	nasty := c20Frags[c.Frag1] + c20Frags[c.Frag2] + c20Frags[c.Frag3]
	var err error
	base := c20Errors[c.Err]
	var wantCode, wantStatus = "error", 500 // what ErrorToRFC6749Error makes of a non-RFC error
	if base != nil {
		err = base.WithHint(c20HintMarker + nasty).WithDebug(c20DebugMarker + nasty)
		wantCode, wantStatus = base.ErrorField, base.CodeField
	} else {
		err = fmt.Errorf("db: connection to 10.0.0.7 refused %s%s", c20DebugMarker, nasty)
	}
	ctx := context.Background()
	rec := httptest.NewRecorder()
	state := "state-12345678" + nasty
	ec := w.AddClient("E", "secret-E", false)
	ec.RedirectURIs = []string{"https://A.example/cb?keep=1"}
	mkAR := func(mode fosite.ResponseModeType, valid bool) *fosite.AuthorizeRequest {
		ar := fosite.NewAuthorizeRequest()
		ar.Client = ec
		ar.State = state
		ar.ResponseMode = mode
		ar.DefaultResponseMode = mode
		if valid {
			u, _ := url.Parse("https://A.example/cb?keep=1")
			ar.RedirectURI = u
		}
		return ar
	}
	redirect := false
	_ = mkAR
	switch c.Writer {
	case "access":
		w.Prov.WriteAccessError(ctx, rec, fosite.NewAccessRequest(NewSess("")), err)
	case "device":
		w.Prov.WriteAccessError(ctx, rec, fosite.NewDeviceRequest(), err)
	case "authorize-query":
		w.Prov.WriteAuthorizeError(ctx, rec, mkAR(fosite.ResponseModeQuery, true), err)
		redirect = true
	case "authorize-fragment":
		w.Prov.WriteAuthorizeError(ctx, rec, mkAR(fosite.ResponseModeFragment, true), err)
		redirect = true
	case "authorize-form_post":
		w.Prov.WriteAuthorizeError(ctx, rec, mkAR(fosite.ResponseModeFormPost, true), err)
		redirect = true
	case "authorize-direct":
		w.Prov.WriteAuthorizeError(ctx, rec, mkAR(fosite.ResponseModeQuery, false), err)
	case "introspection":
		w.Prov.WriteIntrospectionError(ctx, rec, err)
	case "revocation":
		w.Prov.WriteRevocationResponse(ctx, rec, err)
	case "par":
		w.Prov.WritePushedAuthorizeError(ctx, rec, mkAR(fosite.ResponseModeQuery, true), err)
	}
	res.Trans++
	hdr := rec.Header()
	body := rec.Body.String()
	tag := c.Writer + "/" + c.Err
	// cache headers on everything that can carry tokens, codes or errors
	if !strings.Contains(hdr.Get("Cache-Control"), "no-store") || !strings.Contains(hdr.Get("Pragma"), "no-cache") {
		viol("C20/missing-cache-headers/"+c.Writer, fmt.Sprintf("the %s error response lacks Cache-Control: no-store / Pragma: no-cache (got %q / %q)", c.Writer, hdr.Get("Cache-Control"), hdr.Get("Pragma")), "no-store, no-cache", hdr)
	}
	for k, vs := range hdr {
		for _, v := range vs {
			if strings.ContainsAny(v, "\r\n") {
				viol("C20/header-injection/"+c.Writer+"/"+k, "a response header contains a raw CR/LF taken from error text", "encoded", v)
			}
		}
	}
	leak := func(where, s string) {
		if !c.Debug && strings.Contains(s, c20DebugMarker) {
			viol("C20/debug-detail-exposed/"+c.Writer+"/"+where, fmt.Sprintf("internal debug detail appears in the %s of the %s response although exposure is disabled", where, c.Writer), "absent", s)
		}
	}
	switch {
	case redirect && c.Writer != "authorize-form_post":
		loc := hdr.Get("Location")
		if loc == "" {
			viol("C20/redirect-error-without-location/"+tag, "a redirectable authorization error produced no Location", "Location", body)
			return
		}
		u, perr := url.Parse(loc)
		if perr != nil {
			viol("C20/redirect-location-unparsable/"+c.Writer, "the Location header of an error redirect does not parse: "+perr.Error(), "URL", loc)
			return
		}
		var vals url.Values
		if c.Writer == "authorize-fragment" {
			vals, perr = url.ParseQuery(u.EscapedFragment())
			if u.RawQuery != "keep=1" {
				viol("C20/redirect-query-altered/"+c.Writer, "the registered redirect URI's own query was altered by an error redirect", "keep=1", u.RawQuery)
			}
		} else {
			vals, perr = url.ParseQuery(u.RawQuery)
		}
		if perr != nil {
			viol("C20/redirect-parameters-unparsable/"+c.Writer, "error redirect parameters do not parse: "+perr.Error(), "form-encoded", loc)
			return
		}
		if u.Scheme != "https" || u.Host != "A.example" || u.Path != "/cb" {
			viol("C20/redirect-target-altered/"+c.Writer, "error text changed the redirect target", "https://A.example/cb", loc)
		}
		allowed := map[string]bool{"error": true, "error_description": true, "error_hint": true, "error_debug": true, "state": true, "keep": true}
		for k := range vals {
			if !allowed[k] {
				viol("C20/parameter-injected/"+c.Writer+"/"+k, fmt.Sprintf("error text injected the parameter %q into the redirect", k), "only error parameters", loc)
			}
		}
		if vals.Get("error") != wantCode {
			viol("C20/wrong-error-code/"+tag, fmt.Sprintf("redirect carries error=%q, the error raised is %q", vals.Get("error"), wantCode), wantCode, loc)
		}
		if vals.Get("state") != state {
			viol("C20/state-not-round-tripped/"+c.Writer, "the state does not survive the redirect encoding unchanged", state, vals.Get("state"))
		}
		for k, vs := range vals {
			leak("redirect parameter "+k, strings.Join(vs, ""))
		}
	case c.Writer == "authorize-form_post":
		doc, perr := html.Parse(strings.NewReader(body))
		if perr != nil {
			viol("C20/form_post-unparsable", "form_post page does not parse", "HTML", body)
			return
		}
		inputs := map[string]string{}
		bad := ""
		action := ""
		var walk func(n *html.Node)
		walk = func(n *html.Node) {
			if n.Type == html.ElementNode {
				switch n.Data {
				case "html", "head", "title", "body":
				case "form":
					for _, a := range n.Attr {
						if a.Key == "action" {
							action = a.Val
						}
					}
				case "input":
					var name, val string
					for _, a := range n.Attr {
						switch a.Key {
						case "name":
							name = a.Val
						case "value":
							val = a.Val
						case "type":
						default:
							bad = "input attribute " + a.Key
						}
					}
					inputs[name] = val
				default:
					bad = "element <" + n.Data + ">"
				}
			}
			for ch := n.FirstChild; ch != nil; ch = ch.NextSibling {
				walk(ch)
			}
		}
		walk(doc)
		if bad != "" {
			viol("C20/form_post-markup-injected/"+strings.Fields(bad)[0], "error text reflected into the form_post page created markup: "+bad, "escaped text", body)
		}
		if action != "https://A.example/cb?keep=1" {
			viol("C20/form_post-action-altered", "the form_post action is not the redirect URI", "https://A.example/cb?keep=1", action)
		}
		for k := range inputs {
			if k != "error" && k != "error_description" && k != "error_hint" && k != "error_debug" && k != "state" {
				viol("C20/form_post-input-injected/"+k, "error text injected an input into the form_post page", "only error inputs", inputs)
			}
		}
		if inputs["error"] != wantCode {
			viol("C20/wrong-error-code/"+tag, fmt.Sprintf("form_post carries error=%q, raised %q", inputs["error"], wantCode), wantCode, inputs)
		}
		if c20HTMLRepresentable(inputs["state"]) != c20HTMLRepresentable(state) {
			viol("C20/state-not-round-tripped/form_post", "the state does not survive the form_post escaping unchanged", state, inputs["state"])
		}
		for k, v := range inputs {
			leak("form input "+k, v)
		}
	default:
		// JSON body
		if c.Writer == "revocation" && rec.Code == 200 && strings.TrimSpace(body) == "" {
			res.class("revocation:200-empty")
			return
		}
		var m map[string]any
		if jerr := json.Unmarshal([]byte(body), &m); jerr != nil {
			viol("C20/json-body-malformed/"+c.Writer, "the error body is not well-formed JSON: "+jerr.Error(), "JSON", body)
			return
		}
		for k, v := range m {
			leak("json field "+k, fmt.Sprint(v))
		}
		if c.Writer == "introspection" && m["active"] == false && len(m) == 1 {
			res.class("introspection:inactive")
			return
		}
		code, _ := m["error"].(string)
		if code == "" {
			viol("C20/json-without-error-code/"+tag, "the JSON error body has no error code", wantCode, body)
			return
		}
		// status matches the code that is rendered
		okStatus := code == "error" && rec.Code == 500 && base == nil
		for _, e := range c20Errors {
			if e != nil && e.ErrorField == code && e.CodeField == rec.Code {
				okStatus = true
			}
		}
		if !okStatus {
			viol("C20/status-does-not-match-error-code/"+c.Writer+"/"+code, fmt.Sprintf("HTTP status %d does not belong to error code %q", rec.Code, code), "matching status", body)
		}
		if c.Writer != "revocation" && c.Writer != "introspection" {
			if code != wantCode || rec.Code != wantStatus {
				viol("C20/wrong-error-code/"+tag, fmt.Sprintf("body says %q / HTTP %d, the error raised is %q / %d", code, rec.Code, wantCode, wantStatus), wantCode, body)
			}
		}
		if !strings.HasPrefix(hdr.Get("Content-Type"), "application/json") {
			viol("C20/json-without-content-type/"+c.Writer, "JSON error body without a JSON content type", "application/json", hdr.Get("Content-Type"))
		}
	}
	res.distinct(fmt.Sprintf("%+v", c))
}

// ---- storage secrecy

type c20Flow struct {
	Flow string `json:"flow"`
	JWT  bool   `json:"jwt_access"`
}

var c20Flows = []string{"code-pkce-post", "oidc-code", "hybrid", "implicit", "refresh", "password", "client_credentials", "jwt-bearer", "client-assertion", "device", "device-oidc", "par-post", "par-assertion", "revocation", "introspection", "code-replay", "cross-presentation"}

func c20RunStore(c c20Flow, res *WRes) {
	w := NewWorld(Profile{JWTAccess: c.JWT})
	viol := func(fp, what string, obs any) {
		res.violate(Violation{Property: "C20", Fingerprint: fp, What: what, Engine: "c20store", Case: c, Expected: "signature / sanitised form only", Observed: obs})
	}
	// secrets: value -> description; live[v] says the credential is still usable
	type sec struct {
		desc string
		live bool
	}
	secrets := map[string]*sec{}
	add := func(v, desc string) {
		if v != "" {
			secrets[v] = &sec{desc: desc, live: true}
		}
	}
	kill := func(v string) {
		if s := secrets[v]; s != nil {
			s.live = false
		}
	}
	add("secret-A", "client secret")
	add("secret-B", "client secret")
	add("pw-peter", "user password")
	scanned := 0
	scan := func(stage string) {
		for _, call := range w.Store.Log[scanned:] {
			if call.Name == "Authenticate" {
				continue // the resource-owner password check is the one storage call that must receive the password
			}
			check := func(where, v string) {
				for sv, s := range secrets {
					if !s.live {
						continue
					}
					if v == sv || (len(sv) >= 16 && strings.Contains(v, sv)) {
						kind := strings.Fields(s.desc)[0] + "-" + strings.Join(strings.Fields(s.desc)[1:], "-")
						viol(fmt.Sprintf("C20/storage-saw-secret/flow=%s/%s/%s/%s", c.Flow, call.Name, where, kind), fmt.Sprintf("flow %s (%s): %s received a usable %s in cleartext as %s", c.Flow, stage, call.Name, s.desc, where), call.Name)
					}
				}
			}
			for _, k := range call.Keys {
				check("key", k)
			}
			for fk, vs := range call.Form {
				for _, v := range vs {
					check("stored form field "+fk, v)
				}
			}
			res.Evals++
		}
		scanned = len(w.Store.Log)
	}
	postA := Auth{Mode: "post", ID: "A", Secret: "secret-A"}
	authz := func(rt, scope string, extra url.Values) *Obs {
		p := url.Values{"client_id": {"A"}, "redirect_uri": {"https://A.example/cb"}, "state": {"state-12345678"}, "response_type": {rt}, "scope": {scope}, "nonce": {"nonce-12345678"}}
		for k, v := range extra {
			p[k] = v
		}
		o := w.Authorize(p, AuthzOpts{})
		add(o.Param("code"), "complete authorization code")
		add(o.Param("access_token"), "complete access token")
		scan("authorize")
		return o
	}
	token := func(stage string, f url.Values, a Auth) *Obs {
		o := w.Token(f, a)
		add(o.Str("access_token"), "complete access token")
		add(o.Str("refresh_token"), "complete refresh token")
		if issued(o) {
			kill(f.Get("code"))
			kill(f.Get("refresh_token"))
			kill(f.Get("device_code"))
		}
		scan(stage)
		return o
	}
	jc := &fosite.DefaultOpenIDConnectClient{DefaultClient: w.AddClient("J", "", false), TokenEndpointAuthMethod: "private_key_jwt", TokenEndpointAuthSigningAlgorithm: "ES256", JSONWebKeys: jwks(pubJWK(ecKey("ec256b"), "ck-1", "ES256"))}
	jc.RedirectURIs = []string{"https://J.example/cb"}
	w.Mem.Clients["J"] = jc
	assertion := func(jti string) Auth {
		as := c10Assertion(w, "J", "ec256b", jti)
		add(as, "client assertion")
		return Auth{Mode: "omit", Extra: url.Values{"client_assertion_type": {"urn:ietf:params:oauth:client-assertion-type:jwt-bearer"}, "client_assertion": {as}}}
	}
	switch c.Flow {
	case "code-pkce-post", "code-replay":
		add(pkceV0, "S256 code verifier")
		o := authz("code", "offline a", url.Values{"code_challenge": {s256(pkceV0)}, "code_challenge_method": {"S256"}})
		f := url.Values{"grant_type": {"authorization_code"}, "code": {o.Param("code")}, "redirect_uri": {"https://A.example/cb"}, "code_verifier": {pkceV0}}
		token("redeem", f, postA)
		if c.Flow == "code-replay" {
			token("replay", f, postA)
		}
	case "oidc-code":
		o := authz("code", "openid offline a", nil)
		token("redeem", url.Values{"grant_type": {"authorization_code"}, "code": {o.Param("code")}, "redirect_uri": {"https://A.example/cb"}}, postA)
	case "hybrid":
		o := authz("code id_token token", "openid offline a", nil)
		token("redeem", url.Values{"grant_type": {"authorization_code"}, "code": {o.Param("code")}, "redirect_uri": {"https://A.example/cb"}}, postA)
	case "implicit":
		authz("token", "a", nil)
		authz("id_token token", "openid a", nil)
	case "refresh":
		o := authz("code", "openid offline a", nil)
		t := token("redeem", url.Values{"grant_type": {"authorization_code"}, "code": {o.Param("code")}, "redirect_uri": {"https://A.example/cb"}}, postA)
		t2 := token("refresh-1", url.Values{"grant_type": {"refresh_token"}, "refresh_token": {t.Str("refresh_token")}}, postA)
		token("refresh-2", url.Values{"grant_type": {"refresh_token"}, "refresh_token": {t2.Str("refresh_token")}}, postA)
		token("refresh-reuse", url.Values{"grant_type": {"refresh_token"}, "refresh_token": {t.Str("refresh_token")}}, postA)
	case "password":
		token("password", url.Values{"grant_type": {"password"}, "username": {"peter"}, "password": {"pw-peter"}, "scope": {"offline a"}}, postA)
	case "client_credentials":
		token("client_credentials", url.Values{"grant_type": {"client_credentials"}, "scope": {"a"}}, postA)
	case "client-assertion":
		token("client_credentials", url.Values{"grant_type": {"client_credentials"}, "scope": {"a"}}, assertion("jti-1"))
	case "jwt-bearer":
		k := pubJWK(ecKey("ec256a"), "bk-1", "ES256")
		w.Mem.IssuerPublicKeys["issuer-1"] = storage.IssuerPublicKeys{Issuer: "issuer-1", KeysBySub: map[string]storage.SubjectPublicKeys{"subject-1": {Subject: "subject-1", Keys: map[string]storage.PublicKeyScopes{"bk-1": {Key: &k, Scopes: []string{"a"}}}}}}
		now := w.Now()
		as := signJWT(ecKey("ec256a"), "ES256", "bk-1", map[string]any{"iss": "issuer-1", "sub": "subject-1", "aud": []string{TokenURL}, "exp": now.Add(5 * time.Minute).Unix(), "iat": now.Unix(), "jti": "jti-b"}, nil)
		add(as, "bearer assertion")
		token("jwt-bearer", url.Values{"grant_type": {"urn:ietf:params:oauth:grant-type:jwt-bearer"}, "assertion": {as}, "scope": {"a"}}, postA)
	case "device", "device-oidc":
		scope := "offline a"
		if c.Flow == "device-oidc" {
			scope = "openid offline a"
		}
		do := w.DeviceAuth(url.Values{"scope": {scope}}, postA)
		add(do.Str("device_code"), "complete device code")
		add(do.Str("user_code"), "complete user code")
		scan("device authorization")
		w.AcceptUserCode(do.Str("user_code"), true)
		if c.Flow == "device-oidc" {
			sig, _ := w.Dev.UserCodeSignature(nil, do.Str("user_code"))
			if req, ok := w.Mem.DeviceAuths[sig]; ok {
				_, _, dsig := c06Split2(do.Str("device_code"))
				w.Store.NoLog = true
				w.Store.CreateOpenIDConnectSession(context.Background(), dsig, req)
				w.Store.NoLog = false
			}
		}
		token("poll", url.Values{"grant_type": {"urn:ietf:params:oauth:grant-type:device_code"}, "device_code": {do.Str("device_code")}}, postA)
	case "par-post", "par-assertion":
		a := postA
		f := url.Values{"redirect_uri": {"https://A.example/cb"}, "state": {"state-12345678"}, "response_type": {"code"}, "scope": {"offline a"}}
		cid := "A"
		if c.Flow == "par-assertion" {
			a = assertion("jti-par")
			f.Set("redirect_uri", "https://J.example/cb")
			f.Set("client_id", "J")
			cid = "J"
		}
		po := w.PAR(f, a)
		scan("push")
		if ru := po.Str("request_uri"); ru != "" {
			ao := w.Authorize(url.Values{"client_id": {cid}, "request_uri": {ru}}, AuthzOpts{})
			add(ao.Param("code"), "complete authorization code")
			scan("authorize from request_uri")
		} else {
			res.note("sanity:par-refused:" + c.Flow + ":" + po.Class())
		}
	case "cross-presentation":
		// every kind of credential presented in every slot that takes a credential: whichever lookup is tried,
		// the storage key must be a signature, never the complete (still usable) credential
		o := authz("code", "offline a", nil)
		t := token("password", url.Values{"grant_type": {"password"}, "username": {"peter"}, "password": {"pw-peter"}, "scope": {"offline a"}}, postA)
		do := w.DeviceAuth(url.Values{"scope": {"offline a"}}, postA)
		add(do.Str("device_code"), "complete device code")
		add(do.Str("user_code"), "complete user code")
		po := w.PAR(url.Values{"redirect_uri": {"https://A.example/cb"}, "state": {"state-12345678"}, "response_type": {"code"}, "scope": {"offline a"}}, postA)
		scan("setup")
		creds := map[string]string{"code": o.Param("code"), "access_token": t.Str("access_token"), "refresh_token": t.Str("refresh_token"), "device_code": do.Str("device_code"), "user_code": do.Str("user_code"), "request_uri": po.Str("request_uri")}
		var kinds []string
		for k, v := range creds {
			if v != "" {
				kinds = append(kinds, k)
			}
		}
		sort.Strings(kinds)
		for _, k := range kinds {
			v := creds[k]
			for _, hint := range []string{"", "access_token", "refresh_token", "garbage"} {
				w.Introspect(v, hint, "", w.AuthFor("I"), "")
				scan("introspect " + k + " hint=" + hint)
			}
			w.Introspect(t.Str("access_token"), "", "", Auth{Mode: "omit"}, v)
			scan("introspection bearer = " + k)
			if k != "code" {
				token(k+" as code", url.Values{"grant_type": {"authorization_code"}, "code": {v}, "redirect_uri": {"https://A.example/cb"}}, postA)
			}
			if k != "refresh_token" {
				token(k+" as refresh token", url.Values{"grant_type": {"refresh_token"}, "refresh_token": {v}}, postA)
			}
			if k != "device_code" {
				token(k+" as device code", url.Values{"grant_type": {"urn:ietf:params:oauth:grant-type:device_code"}, "device_code": {v}}, postA)
			}
			// (not presented as request_uri: a request_uri is looked up by its full value by contract, so whatever a
			// client puts into that slot reaches GetPARSession as the key)
		}
		// revocation last (it invalidates): each live token under every hint by a foreign client (refused, nothing dies), then by the owner
		for _, k := range []string{"access_token", "refresh_token", "code", "device_code"} {
			for _, hint := range []string{"", "access_token", "refresh_token", "garbage"} {
				w.Revoke(creds[k], hint, Auth{Mode: "post", ID: "B", Secret: "secret-B"})
				scan("foreign revoke " + k + " hint=" + hint)
			}
		}
		for _, hint := range []string{"refresh_token", "access_token"} {
			w.Revoke(creds["access_token"], hint, postA)
			scan("revoke access token hint=" + hint)
			kill(creds["access_token"])
		}
	case "revocation", "introspection":
		t := token("password", url.Values{"grant_type": {"password"}, "username": {"peter"}, "password": {"pw-peter"}, "scope": {"offline a"}}, postA)
		if c.Flow == "revocation" {
			w.Revoke(t.Str("refresh_token"), "", postA)
			scan("revoke refresh token")
			t2 := token("client_credentials", url.Values{"grant_type": {"client_credentials"}, "scope": {"a"}}, postA)
			w.Revoke(t2.Str("access_token"), "access_token", postA)
			scan("revoke access token")
		} else {
			w.Introspect(t.Str("access_token"), "", "", w.AuthFor("I"), "")
			w.Introspect(t.Str("refresh_token"), "refresh_token", "", w.AuthFor("I"), "")
			w.Introspect(t.Str("access_token"), "", "", Auth{Mode: "omit"}, t.Str("access_token")+"x")
			scan("introspect")
		}
	}
	res.Trans++
	res.distinct(fmt.Sprintf("%+v|calls=%d", c, len(w.Store.Log)))
	res.sample(map[string]any{"flow": c.Flow, "jwt": c.JWT, "storage_calls": len(w.Store.Log)})
}

// ---- storage error text must not reach the client unless debug exposure is on

type c20FaultCase struct {
	Flow   string `json:"flow"`
	Call   int    `json:"call"`
	Legacy bool   `json:"legacy_format"`
	Name   string `json:"name,omitempty"`
}

func c20RunFault(c c20FaultCase, res *WRes) {
	w := NewWorld(Profile{LegacyErrors: c.Legacy})
	p := c18Setup(w, c.Flow)
	idx := -1
	hit := ""
	w.Store.Before = func(call *Call) error {
		idx++
		if idx == c.Call {
			hit = call.Name
			return c18Err("generic")
		}
		return nil
	}
	o := p.target()
	w.Store.Before = nil
	res.Trans++
	if hit == "" || o == nil {
		return
	}
	res.distinct(fmt.Sprintf("%s|%d|%v", c.Flow, c.Call, c.Legacy))
	text := o.Body + " " + o.Location + " " + fmt.Sprint(o.FormPost)
	if dec, err := url.QueryUnescape(o.Location); err == nil {
		text += " " + dec
	}
	if o.Err == "error" {
		// ErrorToRFC6749Error's fallback for an error that is not an OAuth 2.0 error: the handler passed the raw storage
		// error through instead of answering server_error
		cc := c
		cc.Name = hit
		res.violate(Violation{Property: "C20", Fingerprint: fmt.Sprintf("C20/storage-failure-answered-with-non-rfc-error-code/flow=%s/%s", c.Flow, hit), What: fmt.Sprintf("flow %s: a storage failure in %s is answered with the error code \"error\" (HTTP %d), which is not an RFC 6749 error code", c.Flow, hit, o.Status), Engine: "c20fault", Case: cc, Expected: "server_error (or another RFC error code)", Observed: strings.TrimSpace(o.Body)})
	}
	if strings.Contains(text, "STORAGEMARKER") || strings.Contains(text, "10.42.7.13") {
		cc := c
		cc.Name = hit
		res.violate(Violation{Property: "C20", Fingerprint: fmt.Sprintf("C20/storage-error-text-exposed/flow=%s/%s", c.Flow, hit), What: fmt.Sprintf("flow %s: the text of a storage error raised by %s appears in the response although debug exposure is disabled", c.Flow, hit), Engine: "c20fault", Case: cc, Expected: "no internal detail", Observed: strings.TrimSpace(o.Body + " " + o.Location)})
	}
}

// c20FetchLeak: the HTTP fetch of a registered request_uri fails in the transport; the text of that error is internal
// detail and must not reach the client unless debug exposure is on.
type failRT struct{ err error }

func (f failRT) RoundTrip(*http.Request) (*http.Response, error) { return nil, f.err }

func c20FetchLeak(legacy bool, res *WRes) {
	w := NewWorld(Profile{LegacyErrors: legacy})
	base := w.AddClient("V", "secret-V", false)
	base.RedirectURIs = []string{"https://v.example/cb"}
	w.Mem.Clients["V"] = &fosite.DefaultOpenIDConnectClient{DefaultClient: base, RequestObjectSigningAlgorithm: "RS256", RequestURIs: []string{"https://v.example/ro.jwt"},
		JSONWebKeys: jwks(pubJWK(rsaKey("rsa1"), "rk", "RS256"))}
	hc := retryablehttp.NewClient()
	hc.RetryMax = 0
	hc.Logger = nil
	hc.HTTPClient.Transport = failRT{err: errors.New("dial tcp 10.42.7.13:8443: connect: connection refused STORAGEMARKER")}
	w.Cfg.HTTPClient = hc
	o := w.Authorize(url.Values{"client_id": {"V"}, "response_type": {"code"}, "scope": {"openid a"}, "state": {"state-12345678"}, "nonce": {"nonce-12345678"}, "redirect_uri": {"https://v.example/cb"}, "request_uri": {"https://v.example/ro.jwt"}}, AuthzOpts{})
	res.Trans++
	res.Evals++
	res.distinct(fmt.Sprintf("request-uri-fetch|%v", legacy))
	text := o.Body + " " + o.Location + " " + fmt.Sprint(o.FormPost)
	if dec, err := url.QueryUnescape(o.Location); err == nil {
		text += " " + dec
	}
	if o.Param("code") != "" {
		res.note("sanity:request-uri-fetch-failure-ignored")
	}
	if strings.Contains(text, "STORAGEMARKER") || strings.Contains(text, "10.42.7.13") {
		res.violate(Violation{Property: "C20", Fingerprint: "C20/request-uri-fetch-error-text-exposed", What: "the transport error of a failed request_uri fetch appears in the authorization error response although debug exposure is disabled", Engine: "c20fetch", Case: map[string]bool{"legacy_format": legacy}, Expected: "no internal detail", Observed: strings.TrimSpace(o.Body + " " + o.Location)})
	}
}

// c20MutantCodes: a manipulated credential is refused with a well-formed error (an OAuth 2.0 error code and a
// 4xx status), never with the fallback {"error":"error"} / HTTP 500 that a raw Go error produces.
func c20MutantCodes(legacy bool, res *WRes) {
	w := NewWorld(Profile{LegacyErrors: legacy})
	auth := w.AuthFor("A")
	pw := w.Token(url.Values{"grant_type": {"password"}, "username": {"peter"}, "password": {"pw-peter"}, "scope": {"offline a"}}, auth)
	code := c19Authz(w, "A", "code", "offline a").Param("code")
	do := w.DeviceAuth(url.Values{"client_id": {"A"}, "scope": {"offline a"}}, auth)
	w.AcceptUserCode(do.Str("user_code"), true)
	creds := map[string]string{"refresh_token": pw.Str("refresh_token"), "code": code, "device_code": do.Str("device_code")}
	muts := map[string]func(pfx, key, sig string) string{
		"random-part-not-base64":    func(pfx, key, sig string) string { return pfx + "!!!" + key[3:] + "." + sig },
		"random-part-altered":       func(pfx, key, sig string) string { return pfx + "AAAA" + key[4:] + "." + sig },
		"random-part-truncated":     func(pfx, key, sig string) string { return pfx + key[:len(key)/2] + "." + sig },
		"signature-part-not-base64": func(pfx, key, sig string) string { return pfx + key + ".!!!" + sig[3:] },
		"no-separator":              func(pfx, key, sig string) string { return pfx + key + sig },
	}
	var kinds []string
	for k := range creds {
		kinds = append(kinds, k)
	}
	sort.Strings(kinds)
	var mnames []string
	for m := range muts {
		mnames = append(mnames, m)
	}
	sort.Strings(mnames)
	for _, k := range kinds {
		pfx, key, sig := c06Split2(creds[k])
		if len(key) < 8 || len(sig) < 8 {
			res.note("sanity:mutant-codes-no-credential:" + k)
			continue
		}
		for _, m := range mnames {
			x := muts[m](pfx, key, sig)
			var o *Obs
			switch k {
			case "refresh_token":
				o = w.Token(url.Values{"grant_type": {"refresh_token"}, "refresh_token": {x}}, auth)
			case "code":
				o = w.Token(url.Values{"grant_type": {"authorization_code"}, "code": {x}, "redirect_uri": {"https://A.example/cb"}}, auth)
			case "device_code":
				o = w.Token(url.Values{"grant_type": {"urn:ietf:params:oauth:grant-type:device_code"}, "device_code": {x}}, auth)
			}
			res.Trans++
			res.Evals++
			res.distinct(fmt.Sprintf("mutant-code|%s|%s|%v", k, m, legacy))
			if issued(o) {
				continue // C06's subject
			}
			if o.Err == "error" || o.Err == "" || o.Status >= 500 {
				res.violate(Violation{Property: "C20", Fingerprint: fmt.Sprintf("C20/manipulated-credential-answered-with-malformed-error/%s/%s", k, m), What: fmt.Sprintf("a %s manipulated by %q is answered with HTTP %d, error code %q: not an OAuth 2.0 error response", k, m, o.Status, o.Err), Engine: "c20mutant", Case: map[string]bool{"legacy_format": legacy}, Expected: "a 4xx answer with an OAuth 2.0 error code", Observed: strings.TrimSpace(o.Body)})
			}
		}
	}
}

// c20KeyFault: the provider of the ID-token signing key fails. Whatever endpoint was about to mint an ID token answers
// with an OAuth 2.0 error (server_error), not with the fallback code "error".
func c20KeyFault(legacy bool, res *WRes) {
	for _, flow := range []string{"implicit-id_token", "hybrid", "code-redeem", "refresh"} {
		w := NewWorld(Profile{LegacyErrors: legacy})
		auth := w.AuthFor("A")
		fault := errors.New("kms: key provider unavailable STORAGEMARKER")
		var o *Obs
		switch flow {
		case "implicit-id_token":
			w.KeyFault = fault
			o = c19Authz(w, "A", "id_token", "openid a")
		case "hybrid":
			w.KeyFault = fault
			o = c19Authz(w, "A", "code id_token", "openid a")
		case "code-redeem", "refresh":
			code := c19Authz(w, "A", "code", "openid offline a").Param("code")
			f := url.Values{"grant_type": {"authorization_code"}, "code": {code}, "redirect_uri": {"https://A.example/cb"}}
			if flow == "code-redeem" {
				w.KeyFault = fault
				o = w.Token(f, auth)
			} else {
				t := w.Token(f, auth)
				w.KeyFault = fault
				o = w.Token(url.Values{"grant_type": {"refresh_token"}, "refresh_token": {t.Str("refresh_token")}}, auth)
			}
		}
		res.Trans++
		res.Evals++
		res.distinct(fmt.Sprintf("key-fault|%s|%v", flow, legacy))
		if o.Param("id_token") != "" || o.Str("id_token") != "" {
			res.note("sanity:id-token-minted-despite-key-fault")
			continue
		}
		code := o.Err
		if code == "" {
			code = o.Param("error")
		}
		text := o.Body + " " + o.Location
		if dec, err := url.QueryUnescape(o.Location); err == nil {
			text += " " + dec
		}
		if code == "error" {
			res.violate(Violation{Property: "C20", Fingerprint: "C20/signing-key-failure-answered-with-non-rfc-error-code/" + flow, What: fmt.Sprintf("flow %s: a failure of the ID-token signing key provider is answered with the error code \"error\", which is not an OAuth 2.0 error code", flow), Engine: "c20keyfault", Case: map[string]bool{"legacy_format": legacy}, Expected: "server_error", Observed: strings.TrimSpace(text)})
		}
		if strings.Contains(text, "STORAGEMARKER") {
			res.violate(Violation{Property: "C20", Fingerprint: "C20/signing-key-failure-text-exposed/" + flow, What: fmt.Sprintf("flow %s: the text of the key provider's error appears in the response although debug exposure is disabled", flow), Engine: "c20keyfault", Case: map[string]bool{"legacy_format": legacy}, Expected: "no internal detail", Observed: strings.TrimSpace(text)})
		}
	}
}

type c20Job struct {
	Cache  bool
	Fault  bool
	Writer string
	Debug  bool
	Legacy bool
	Depth  int
	Store  bool
}

func init() {
	registerWorker("c20", func(arg json.RawMessage) (any, error) {
		var j c20Job
		if err := json.Unmarshal(arg, &j); err != nil {
			return nil, err
		}
		res := &WRes{}
		if j.Cache {
			for _, wr := range c20CacheWriters {
				for _, ps := range c20CachePresets {
					c20CacheRun(c20CacheCase{Writer: wr, Preset: ps}, res)
					res.Evals++
					if c20ResponderHeaderWriters[wr] {
						c20CacheRun(c20CacheCase{Writer: wr, Preset: ps, Responder: true}, res)
						res.Evals++
					}
				}
			}
			return res, nil
		}
		if j.Fault {
			for _, f := range c18Flows {
				n := len(c18Trace(f, false))
				for i := 0; i < n; i++ {
					for _, leg := range []bool{false, true} {
						c20RunFault(c20FaultCase{Flow: f, Call: i, Legacy: leg}, res)
						res.Evals++
					}
				}
			}
			for _, leg := range []bool{false, true} {
				c20FetchLeak(leg, res)
				c20MutantCodes(leg, res)
				c20KeyFault(leg, res)
			}
			res.sample(map[string]any{"part": "storage error text", "flows": c18Flows})
			return res, nil
		}
		if j.Store {
			for _, f := range c20Flows {
				for _, jwt := range []bool{false, true} {
					c20RunStore(c20Flow{Flow: f, JWT: jwt}, res)
				}
			}
			return res, nil
		}
		for name := range c20Errors {
			for f1 := range c20Frags {
				f2s := []int{0}
				if j.Depth >= 2 && f1 != 0 {
					f2s = nil
					for f2 := range c20Frags {
						f2s = append(f2s, f2)
					}
				}
				for _, f2 := range f2s {
					f3s := []int{0}
					if j.Depth >= 3 && f1 != 0 && f2 != 0 {
						f3s = nil
						for f3 := range c20Frags {
							f3s = append(f3s, f3)
						}
					}
					for _, f3 := range f3s {
						c := c20Case{Err: name, Frag1: f1, Frag2: f2, Frag3: f3, Legacy: j.Legacy, Debug: j.Debug, Writer: j.Writer}
						n := len(res.Viol)
						c20RunErr(c, res)
						res.Evals++
						if len(res.Viol) == n {
							res.sample(c)
						}
					}
				}
			}
		}
		return res, nil
	})
	replayFns["c20err"] = func(raw json.RawMessage) ([]Violation, error) {
		var c c20Case
		if err := json.Unmarshal(raw, &c); err != nil {
			return nil, err
		}
		res := &WRes{}
		c20RunErr(c, res)
		return res.Viol, nil
	}
	replayFns["c20keyfault"] = func(raw json.RawMessage) ([]Violation, error) {
		var c struct {
			Legacy bool `json:"legacy_format"`
		}
		if err := json.Unmarshal(raw, &c); err != nil {
			return nil, err
		}
		res := &WRes{}
		c20KeyFault(c.Legacy, res)
		return res.Viol, nil
	}
	replayFns["c20mutant"] = func(raw json.RawMessage) ([]Violation, error) {
		var c struct {
			Legacy bool `json:"legacy_format"`
		}
		if err := json.Unmarshal(raw, &c); err != nil {
			return nil, err
		}
		res := &WRes{}
		c20MutantCodes(c.Legacy, res)
		return res.Viol, nil
	}
	replayFns["c20fetch"] = func(raw json.RawMessage) ([]Violation, error) {
		var c struct {
			Legacy bool `json:"legacy_format"`
		}
		if err := json.Unmarshal(raw, &c); err != nil {
			return nil, err
		}
		res := &WRes{}
		c20FetchLeak(c.Legacy, res)
		return res.Viol, nil
	}
	replayFns["c20fault"] = func(raw json.RawMessage) ([]Violation, error) {
		var c c20FaultCase
		if err := json.Unmarshal(raw, &c); err != nil {
			return nil, err
		}
		res := &WRes{}
		c20RunFault(c, res)
		return res.Viol, nil
	}
	replayFns["c20store"] = func(raw json.RawMessage) ([]Violation, error) {
		var c c20Flow
		if err := json.Unmarshal(raw, &c); err != nil {
			return nil, err
		}
		res := &WRes{}
		c20RunStore(c, res)
		return res.Viol, nil
	}
	replayFns["c20cache"] = func(raw json.RawMessage) ([]Violation, error) {
		var c c20CacheCase
		if err := json.Unmarshal(raw, &c); err != nil {
			return nil, err
		}
		res := &WRes{}
		c20CacheRun(c, res)
		return res.Viol, nil
	}
	registerCheck("C20", "exploration", 150*time.Second, 25*time.Minute, func(r *Run) {
		depth := 2
		if !r.Quick() {
			depth = 3
		}
		var jobs []any
		jobs = append(jobs, c20Job{Store: true})
		jobs = append(jobs, c20Job{Fault: true})
		jobs = append(jobs, c20Job{Cache: true})
		for _, wr := range c20Writers {
			for _, dbg := range []bool{false, true} {
				for _, leg := range []bool{false, true} {
					jobs = append(jobs, c20Job{Writer: wr, Debug: dbg, Legacy: leg, Depth: depth})
				}
			}
		}
		var names []string
		for n := range c20Errors {
			names = append(names, n)
		}
		r.Bounds = map[string]any{"cache_headers": map[string]any{"writers": c20CacheWriters, "cache_control_already_on_the_writer": c20CachePresets}, "errors": len(names), "fragments": len(c20Frags), "fragment_depth": depth, "writers": c20Writers, "formats": []string{"new", "legacy"}, "debug_exposure": []bool{false, true}, "storage_flows": c20Flows, "storage_strategies": []string{"hmac", "jwt"}, "storage_error_text": "a generic storage error carrying a recognisable text is injected at every storage call of every C18 flow, both error formats, debug exposure off: the text must not appear and the error code must be an RFC code; likewise the transport error of a failed request_uri fetch"}
		r.Rule = "errors: every exported RFC error (and a plain Go error) x hint/debug text built from <= depth nasty fragments x format x debug exposure x writer, the bytes written are re-parsed (JSON / URL / HTML tokenizer); storage: every storage call of every flow is scanned (keys and stored request forms) for secrets that are usable at the moment of the call"
		r.Assumptions = []string{"the user password necessarily reaches the Authenticate storage call", "a just-consumed credential passed as a key is not a usable secret", "the revocation and introspection writers choose their own error; for them only self-consistency of code and status is checked"}
		res := r.Pool.Do("c20", jobs, r.Deadline)
		if !r.MergeJobs(res) {
			r.Exhaustive = false
		}
	})
}

// c20CacheHeaders: every Write* function, success and error, on a response writer on which the embedding application
// (a middleware, a framework default) already set caching headers: what leaves must still be marked no-store / no-cache.
type c20CacheCase struct {
	Writer string `json:"writer"`
	Preset string `json:"preset_cache_control"`
	// Responder: an endpoint handler put Cache-Control / Pragma / Expires on the *responder* (the writers copy responder
	// headers to the response, "e.g. X-DONT-CACHE-ME"): the mandatory marking must win over them as well.
	Responder bool `json:"responder_sets_cache_headers,omitempty"`
}

// c20ResponderHeaderWriters: the writers whose responder carries headers.
var c20ResponderHeaderWriters = map[string]bool{"authorize-query": true, "authorize-fragment": true, "authorize-form_post": true, "authorize-custom-mode": true, "par": true, "device": true}

var c20CacheWriters = []string{"access", "access-error", "authorize-query", "authorize-fragment", "authorize-form_post", "authorize-error-query", "authorize-error-direct", "introspection", "introspection-inactive", "introspection-error",
	"revocation", "revocation-error", "par", "par-error", "device", "device-error", "authorize-custom-mode", "authorize-error-custom-mode"}
var c20CachePresets = []string{"", "public, max-age=300", "max-age=0", "private"}

func c20CacheRun(c c20CacheCase, res *WRes) {
	w := NewWorld(Profile{})
	ctx := context.Background()
	rec := httptest.NewRecorder()
	if c.Preset != "" {
		rec.Header().Set("Cache-Control", c.Preset)
		rec.Header().Set("Pragma", "public")
		rec.Header().Set("Expires", "Thu, 01 Jan 2032 00:00:00 GMT")
	}
	ec := w.AddClient("E", "secret-E", false)
	ec.RedirectURIs = []string{"https://A.example/cb"}
	mkAR := func(mode fosite.ResponseModeType, valid bool) *fosite.AuthorizeRequest {
		ar := fosite.NewAuthorizeRequest()
		ar.Client = ec
		ar.State = "state-12345678"
		ar.ResponseMode = mode
		ar.DefaultResponseMode = mode
		if valid {
			u, _ := url.Parse("https://A.example/cb")
			ar.RedirectURI = u
		}
		return ar
	}
	authzResp := func() *fosite.AuthorizeResponse {
		r := fosite.NewAuthorizeResponse()
		r.AddParameter("code", "ory_ac_abc.def")
		r.AddParameter("state", "state-12345678")
		if c.Responder {
			r.AddHeader("Cache-Control", "public, max-age=300")
			r.AddHeader("Pragma", "public")
		}
		return r
	}
	accReq := fosite.NewAccessRequest(NewSess("user-1"))
	accReq.Client = ec
	e := fosite.ErrInvalidRequest.WithHint("nope")
	switch c.Writer {
	case "access":
		resp := fosite.NewAccessResponse()
		resp.SetAccessToken("ory_at_abc.def")
		resp.SetTokenType("bearer")
		w.Prov.WriteAccessResponse(ctx, rec, accReq, resp)
	case "access-error":
		w.Prov.WriteAccessError(ctx, rec, accReq, e)
	case "authorize-query":
		w.Prov.WriteAuthorizeResponse(ctx, rec, mkAR(fosite.ResponseModeQuery, true), authzResp())
	case "authorize-fragment":
		w.Prov.WriteAuthorizeResponse(ctx, rec, mkAR(fosite.ResponseModeFragment, true), authzResp())
	case "authorize-form_post":
		w.Prov.WriteAuthorizeResponse(ctx, rec, mkAR(fosite.ResponseModeFormPost, true), authzResp())
	case "authorize-custom-mode":
		w.Cfg.ResponseModeHandlerExtension = c20CustomMode{}
		w.Prov.WriteAuthorizeResponse(ctx, rec, mkAR("custom_mode", true), authzResp())
	case "authorize-error-custom-mode":
		w.Cfg.ResponseModeHandlerExtension = c20CustomMode{}
		w.Prov.WriteAuthorizeError(ctx, rec, mkAR("custom_mode", true), e)
	case "authorize-error-query":
		w.Prov.WriteAuthorizeError(ctx, rec, mkAR(fosite.ResponseModeQuery, true), e)
	case "authorize-error-direct":
		w.Prov.WriteAuthorizeError(ctx, rec, mkAR(fosite.ResponseModeQuery, false), e)
	case "introspection":
		w.Prov.WriteIntrospectionResponse(ctx, rec, &fosite.IntrospectionResponse{Active: true, AccessRequester: accReq, TokenUse: fosite.AccessToken})
	case "introspection-inactive":
		w.Prov.WriteIntrospectionResponse(ctx, rec, &fosite.IntrospectionResponse{Active: false, AccessRequester: accReq})
	case "introspection-error":
		w.Prov.WriteIntrospectionError(ctx, rec, e)
	case "revocation":
		w.Prov.WriteRevocationResponse(ctx, rec, nil)
	case "revocation-error":
		w.Prov.WriteRevocationResponse(ctx, rec, fosite.ErrInvalidClient)
	case "par":
		pr := &fosite.PushedAuthorizeResponse{RequestURI: "urn:ietf:params:oauth:request_uri:abc", ExpiresIn: 300, Header: http.Header{}, Extra: map[string]interface{}{}}
		if c.Responder {
			pr.AddHeader("Cache-Control", "public, max-age=300")
			pr.AddHeader("Pragma", "public")
		}
		w.Prov.WritePushedAuthorizeResponse(ctx, rec, mkAR(fosite.ResponseModeQuery, true), pr)
	case "par-error":
		w.Prov.WritePushedAuthorizeError(ctx, rec, mkAR(fosite.ResponseModeQuery, true), e)
	case "device":
		dr := fosite.NewDeviceResponse()
		dr.DeviceCode, dr.UserCode = "ory_dc_abc.def", "ABCDEFGH"
		if c.Responder {
			if dr.Header == nil {
				dr.Header = http.Header{}
			}
			dr.AddHeader("Cache-Control", "public, max-age=300")
			dr.AddHeader("Pragma", "public")
		}
		w.Prov.WriteDeviceResponse(ctx, rec, fosite.NewDeviceRequest(), dr)
	case "device-error":
		w.Prov.WriteAccessError(ctx, rec, fosite.NewDeviceRequest(), e)
	}
	res.Trans++
	hdr := rec.Header()
	cc := strings.Join(hdr.Values("Cache-Control"), ", ")
	pr := strings.Join(hdr.Values("Pragma"), ", ")
	res.class(fmt.Sprintf("cache-headers:%s:%d", c.Writer, rec.Code))
	res.distinct(fmt.Sprintf("cache%+v", c))
	if c.Writer == "introspection-error" && rec.Code == 200 {
		// RFC 7662 answers some failures as {"active":false}: still a response of the endpoint, judged below
	}
	if !strings.Contains(cc, "no-store") || !strings.Contains(pr, "no-cache") || strings.Contains(cc, "public") || strings.Contains(cc, "max-age=300") {
		res.violate(Violation{Property: "C20", Fingerprint: "C20/missing-cache-headers/" + c.Writer + "/preset=" + map[bool]string{true: "none", false: "application-set"}[c.Preset == ""] + map[bool]string{true: "/responder-headers", false: ""}[c.Responder],
			What: fmt.Sprintf("the %s response leaves with Cache-Control %q / Pragma %q (the response writer came with Cache-Control %q): not marked no-store / no-cache", c.Writer, cc, pr, c.Preset), Engine: "c20cache", Case: c, Expected: "Cache-Control: no-store, Pragma: no-cache", Observed: hdr})
	}
}

// c20CustomMode: an integrator's response-mode extension written to the interface's contract ("following headers are
// expected to be set by default"): it renders the response and leaves the cache headers to the library.
type c20CustomMode struct{}

func (c20CustomMode) ResponseModes() fosite.ResponseModeTypes {
	return fosite.ResponseModeTypes{"custom_mode"}
}
func (c20CustomMode) WriteAuthorizeResponse(ctx context.Context, rw http.ResponseWriter, ar fosite.AuthorizeRequester, resp fosite.AuthorizeResponder) {
	rw.WriteHeader(http.StatusOK)
	rw.Write([]byte(resp.GetParameters().Encode()))
}
func (c20CustomMode) WriteAuthorizeError(ctx context.Context, rw http.ResponseWriter, ar fosite.AuthorizeRequester, err error) {
	rw.WriteHeader(http.StatusBadRequest)
	rw.Write([]byte("error"))
}

// c20HTMLRepresentable: what an HTML attribute can carry of s (invalid UTF-8 bytes and NUL become U+FFFD one by
// one, CRLF is normalised to LF by the HTML tokenizer).
func c20HTMLRepresentable(s string) string {
	var sb strings.Builder
	for i := 0; i < len(s); {
		r, n := utf8.DecodeRuneInString(s[i:])
		if (r == utf8.RuneError && n == 1) || r == 0 {
			sb.WriteRune('\uFFFD')
		} else {
			sb.WriteString(s[i : i+n])
		}
		i += n
	}
	return strings.ReplaceAll(sb.String(), "\r\n", "\n")
}
