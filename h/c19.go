package main

import (
	"context"
	"encoding/json"
	"fmt"
	"net/url"
	"os"
	"regexp"
	"sort"
	"strings"
	"time"

	"github.com/ory/fosite"
)

// C19 — one provider and the reference store are safe under concurrent requests.
// Scenarios are explored by the SCHED engine at lock granularity (preemption bounded) and at
// storage-call granularity; every execution is judged for deadlock, panic, data races (vector
// clocks over lock edges + overlay access hooks) and by a scenario judge.

var nameRx = regexp.MustCompile(`(k|rid)#\d+`)

// anonDump: final store contents with mint-order names erased (schedules mint in different orders)
func anonDump(w *World) string {
	lines := strings.Split(c18CoreDump(w), "\n")
	for i, l := range lines {
		lines[i] = nameRx.ReplaceAllString(l, "$1#")
	}
	sort.Strings(lines)
	return strings.Join(lines, "\n")
}

type c19Out struct {
	obs  []*Obs
	toks map[string]int
}

func c19Collect(results []*Obs) (tokens []string, dup string) {
	seen := map[string]bool{}
	for _, o := range results {
		if o == nil {
			continue
		}
		for _, v := range []string{o.Str("access_token"), o.Str("refresh_token"), o.Param("code"), o.Param("access_token"), o.Str("device_code"), o.Str("request_uri")} {
			if v == "" {
				continue
			}
			if seen[v] {
				dup = v
			}
			seen[v] = true
			tokens = append(tokens, v)
		}
	}
	return
}

// c19APIScenario: threads are closures over a prepared world.
func c19APIScenario(name string, profile Profile, prep func(w *World) (ops []func() *Obs, invalidating bool)) Scenario {
	return Scenario{Name: name, Prop: "C19", Build: func() (*World, []func(), func(x *Exec) []Violation) {
		w := NewWorld(profile)
		ops, invalidating := prep(w)
		results := make([]*Obs, len(ops))
		var bodies []func()
		for i, op := range ops {
			i, op := i, op
			bodies = append(bodies, func() { results[i] = op() })
		}
		judge := func(x *Exec) []Violation {
			var vs []Violation
			toks, dup := c19Collect(results)
			if dup != "" {
				vs = append(vs, Violation{Fingerprint: "C19/same-value-returned-twice/" + name, What: "two concurrent requests were handed the same token value", Expected: "distinct values", Observed: dup})
			}
			var cls []string
			for _, o := range results {
				if o == nil {
					cls = append(cls, "nil")
				} else {
					cls = append(cls, o.Class())
				}
			}
			// every token handed out is active, unless one of the concurrent requests invalidates tokens
			inactive := 0
			for _, t := range toks {
				if strings.HasPrefix(t, "ory_at_") || strings.HasPrefix(t, "ory_rt_") {
					if act, _ := w.Active(t); !act {
						inactive++
					}
				}
			}
			if inactive > 0 && !invalidating {
				vs = append(vs, Violation{Fingerprint: "C19/token-handed-out-inactive/" + name, What: fmt.Sprintf("%d token(s) handed to a caller are inactive although no concurrent request invalidates tokens", inactive), Expected: "active", Observed: cls})
			}
			execNotes[x] = fmt.Sprintf("%v inactive=%d state=%s", cls, inactive, shortHash(anonDump(w))[:8])
			return vs
		}
		return w, bodies, judge
	}}
}

func c19Authz(w *World, client, rt, scope string) *Obs {
	return w.Authorize(url.Values{"client_id": {client}, "redirect_uri": {"https://" + client + ".example/cb"}, "state": {"state-12345678"}, "response_type": {rt}, "scope": {scope}, "nonce": {"nonce-12345678"}}, AuthzOpts{})
}

func init() {
	def := Profile{}
	registerScenario(c19APIScenario("redeem-redeem", def, func(w *World) ([]func() *Obs, bool) {
		code := c19Authz(w, "A", "code", "openid offline a").Param("code")
		f := url.Values{"grant_type": {"authorization_code"}, "code": {code}, "redirect_uri": {"https://A.example/cb"}}
		op := func() *Obs { return w.Token(f, w.AuthFor("A")) }
		return []func() *Obs{op, op}, true
	}))
	registerScenario(c19APIScenario("refresh-refresh", def, func(w *World) ([]func() *Obs, bool) {
		o := w.Token(url.Values{"grant_type": {"password"}, "username": {"peter"}, "password": {"pw-peter"}, "scope": {"offline a"}}, w.AuthFor("A"))
		f := url.Values{"grant_type": {"refresh_token"}, "refresh_token": {o.Str("refresh_token")}}
		op := func() *Obs { return w.Token(f, w.AuthFor("A")) }
		return []func() *Obs{op, op}, true
	}))
	// the same with the library's own openid.DefaultSession as session implementation and an OpenID Connect grant
	oidSess := Profile{Session: "openid"}
	registerScenario(c19APIScenario("refresh-refresh-openid-session", oidSess, func(w *World) ([]func() *Obs, bool) {
		code := c19Authz(w, "A", "code", "openid offline a").Param("code")
		o := w.Token(url.Values{"grant_type": {"authorization_code"}, "code": {code}, "redirect_uri": {"https://A.example/cb"}}, w.AuthFor("A"))
		o = w.Token(url.Values{"grant_type": {"refresh_token"}, "refresh_token": {o.Str("refresh_token")}}, w.AuthFor("A"))
		f := url.Values{"grant_type": {"refresh_token"}, "refresh_token": {o.Str("refresh_token")}}
		op := func() *Obs { return w.Token(f, w.AuthFor("A")) }
		return []func() *Obs{op, op}, true
	}))
	registerScenario(c19APIScenario("refresh-introspect-openid-session", oidSess, func(w *World) ([]func() *Obs, bool) {
		code := c19Authz(w, "A", "code", "openid offline a").Param("code")
		o := w.Token(url.Values{"grant_type": {"authorization_code"}, "code": {code}, "redirect_uri": {"https://A.example/cb"}}, w.AuthFor("A"))
		at, rt := o.Str("access_token"), o.Str("refresh_token")
		return []func() *Obs{
			func() *Obs {
				return w.Token(url.Values{"grant_type": {"refresh_token"}, "refresh_token": {rt}}, w.AuthFor("A"))
			},
			func() *Obs { _, io := w.Active(at); return io },
		}, true
	}))
	registerScenario(c19APIScenario("refresh-revoke-introspect", def, func(w *World) ([]func() *Obs, bool) {
		o := w.Token(url.Values{"grant_type": {"password"}, "username": {"peter"}, "password": {"pw-peter"}, "scope": {"offline a"}}, w.AuthFor("A"))
		rt, at := o.Str("refresh_token"), o.Str("access_token")
		return []func() *Obs{
			func() *Obs {
				return w.Token(url.Values{"grant_type": {"refresh_token"}, "refresh_token": {rt}}, w.AuthFor("A"))
			},
			func() *Obs { return w.Revoke(rt, "refresh_token", w.AuthFor("A")) },
			func() *Obs { _, io := w.Active(at); return io },
		}, true
	}))
	registerScenario(c19APIScenario("refresh-revoke-at", def, func(w *World) ([]func() *Obs, bool) {
		o := w.Token(url.Values{"grant_type": {"password"}, "username": {"peter"}, "password": {"pw-peter"}, "scope": {"offline a"}}, w.AuthFor("A"))
		rt, at := o.Str("refresh_token"), o.Str("access_token")
		return []func() *Obs{
			func() *Obs {
				return w.Token(url.Values{"grant_type": {"refresh_token"}, "refresh_token": {rt}}, w.AuthFor("A"))
			},
			func() *Obs { return w.Revoke(at, "access_token", w.AuthFor("A")) },
		}, true
	}))
	registerScenario(c19APIScenario("redeem-introspect-authorize", def, func(w *World) ([]func() *Obs, bool) {
		code := c19Authz(w, "A", "code", "offline a").Param("code")
		other := w.Token(url.Values{"grant_type": {"client_credentials"}, "scope": {"a"}}, w.AuthFor("B")).Str("access_token")
		return []func() *Obs{
			func() *Obs {
				return w.Token(url.Values{"grant_type": {"authorization_code"}, "code": {code}, "redirect_uri": {"https://A.example/cb"}}, w.AuthFor("A"))
			},
			func() *Obs { _, io := w.Active(other); return io },
			func() *Obs { return c19Authz(w, "P", "code", "a") },
		}, false
	}))
	registerScenario(c19APIScenario("poll-poll", def, func(w *World) ([]func() *Obs, bool) {
		do := w.DeviceAuth(url.Values{"client_id": {"A"}, "scope": {"offline a"}}, w.AuthFor("A"))
		w.AcceptUserCode(do.Str("user_code"), true)
		f := url.Values{"grant_type": {"urn:ietf:params:oauth:grant-type:device_code"}, "device_code": {do.Str("device_code")}}
		op := func() *Obs { return w.Token(f, w.AuthFor("A")) }
		return []func() *Obs{op, op}, true
	}))
	registerScenario(c19APIScenario("poll-poll-oidc", oidSess, func(w *World) ([]func() *Obs, bool) {
		do := w.DeviceAuth(url.Values{"client_id": {"A"}, "scope": {"openid offline a"}}, w.AuthFor("A"))
		w.AcceptUserCode(do.Str("user_code"), true)
		// the verification page creates the OpenID Connect session when the user logs in (documented integrator duty)
		if sig, err := w.Dev.UserCodeSignature(nil, do.Str("user_code")); err == nil {
			if req, ok := w.Mem.DeviceAuths[sig]; ok {
				_, _, dsig := c06Split2(do.Str("device_code"))
				w.Mem.CreateOpenIDConnectSession(context.Background(), dsig, req)
			}
		}
		f := url.Values{"grant_type": {"urn:ietf:params:oauth:grant-type:device_code"}, "device_code": {do.Str("device_code")}}
		op := func() *Obs { return w.Token(f, w.AuthFor("A")) }
		return []func() *Obs{op, op}, true
	}))
	// the verification page records the approval with a freshly built session (no expiry map yet): the stored request
	// is shared by overlapping polls, so even reading it must not write
	for _, st := range []string{"default", "openid", "jwt"} {
		st := st
		registerScenario(c19APIScenario("poll-poll-fresh-"+st+"-session", Profile{Session: st}, func(w *World) ([]func() *Obs, bool) {
			do := w.DeviceAuth(url.Values{"client_id": {"A"}, "scope": {"offline a"}}, w.AuthFor("A"))
			if sig, err := w.Dev.UserCodeSignature(nil, do.Str("user_code")); err == nil {
				if req, ok := w.Mem.DeviceAuths[sig]; ok {
					req.SetSession(w.NewSession("device-user"))
					req.SetUserCodeState(fosite.UserCodeAccepted)
				}
			}
			f := url.Values{"grant_type": {"urn:ietf:params:oauth:grant-type:device_code"}, "device_code": {do.Str("device_code")}}
			op := func() *Obs { return w.Token(f, w.AuthFor("A")) }
			return []func() *Obs{op, op}, true
		}))
	}
	registerScenario(c19APIScenario("deviceauth-poll", def, func(w *World) ([]func() *Obs, bool) {
		do := w.DeviceAuth(url.Values{"client_id": {"A"}, "scope": {"offline a"}}, w.AuthFor("A"))
		w.AcceptUserCode(do.Str("user_code"), true)
		f := url.Values{"grant_type": {"urn:ietf:params:oauth:grant-type:device_code"}, "device_code": {do.Str("device_code")}}
		return []func() *Obs{
			func() *Obs { return w.Token(f, w.AuthFor("A")) },
			func() *Obs { return w.DeviceAuth(url.Values{"client_id": {"B"}, "scope": {"a"}}, w.AuthFor("B")) },
		}, false
	}))
	registerScenario(c19APIScenario("paruse-paruse", def, func(w *World) ([]func() *Obs, bool) {
		ru := w.PAR(url.Values{"client_id": {"A"}, "redirect_uri": {"https://A.example/cb"}, "state": {"state-12345678"}, "response_type": {"code"}, "scope": {"a"}}, w.AuthFor("A")).Str("request_uri")
		op := func() *Obs { return w.Authorize(url.Values{"client_id": {"A"}, "request_uri": {ru}}, AuthzOpts{}) }
		return []func() *Obs{op, op}, false
	}))
	for _, dc := range []bool{true, false} {
		name := "authorize-authorize-populated-config"
		if dc {
			name = "authorize-authorize-default-config"
		}
		registerScenario(c19APIScenario(name, Profile{DefaultConfig: dc}, func(w *World) ([]func() *Obs, bool) {
			return []func() *Obs{
				func() *Obs { return c19Authz(w, "P", "code", "a") },
				func() *Obs { return c19Authz(w, "A", "token", "a") },
			}, false
		}))
	}
	registerScenario(c19APIScenario("token-token-default-config", Profile{DefaultConfig: true}, func(w *World) ([]func() *Obs, bool) {
		return []func() *Obs{
			func() *Obs {
				return w.Token(url.Values{"grant_type": {"client_credentials"}, "scope": {"a"}}, w.AuthFor("A"))
			},
			func() *Obs {
				return w.Token(url.Values{"grant_type": {"client_credentials"}, "scope": {"a"}}, w.AuthFor("B"))
			},
		}, false
	}))
	// two refused requests answered in two languages: the message catalog is one object shared by every request
	registerScenario(c19APIScenario("i18n-errors", Profile{I18N: true}, func(w *World) ([]func() *Obs, bool) {
		return []func() *Obs{
			func() *Obs {
				a := w.AuthFor("A")
				a.Lang = "es-MX,es;q=0.9"
				return w.Token(url.Values{"grant_type": {"client_credentials"}, "scope": {"not-registered"}}, a)
			},
			func() *Obs {
				return w.Authorize(url.Values{"client_id": {"A"}, "redirect_uri": {"https://A.example/cb"}, "state": {"state-12345678"}, "response_type": {"code"}, "scope": {"a"}}, AuthzOpts{Deny: true, Lang: "de-DE,de;q=0.8"})
			},
		}, false
	}))
	registerScenario(c19APIScenario("issue-introspect", def, func(w *World) ([]func() *Obs, bool) {
		at := w.Token(url.Values{"grant_type": {"client_credentials"}, "scope": {"a"}}, w.AuthFor("B")).Str("access_token")
		return []func() *Obs{
			func() *Obs {
				return w.Token(url.Values{"grant_type": {"client_credentials"}, "scope": {"a"}}, w.AuthFor("A"))
			},
			func() *Obs {
				act, io := w.Active(at)
				if !act {
					io.Err = "genuine-token-reported-inactive"
				}
				return io
			},
		}, false
	}))
	// first uses of every getter of a default-constructed Config from two requests at once (values that are built
	// lazily must not be stored into the shared Config without synchronisation)
	registerScenario(Scenario{Name: "default-config-getters", Prop: "C19", Build: func() (*World, []func(), func(x *Exec) []Violation) {
		w := NewWorld(Profile{DefaultConfig: true})
		ctx := context.Background()
		body := func() {
			c := w.Cfg
			c.GetJWKSFetcherStrategy(ctx)
			c.GetScopeStrategy(ctx)
			c.GetAudienceStrategy(ctx)
			c.GetSecretsHasher(ctx)
			c.GetHTTPClient(ctx)
			c.GetMessageCatalog(ctx)
			c.GetFormPostHTMLTemplate(ctx)
			c.GetTokenURLs(ctx)
			c.GetRefreshTokenScopes(ctx)
			c.GetMinParameterEntropy(ctx)
			c.GetAllowedPrompts(ctx)
			c.GetRedirectSecureChecker(ctx)
		}
		return w, []func(){body, body}, nil
	}})
	// two introspections of one token: the introspection request takes over the stored session by reference
	for _, st := range []string{"default", "openid", "jwt"} {
		st := st
		registerScenario(c19APIScenario("introspect-introspect-"+st+"-session", Profile{Session: st}, func(w *World) ([]func() *Obs, bool) {
			at := w.Token(url.Values{"grant_type": {"client_credentials"}, "scope": {"a"}}, w.AuthFor("B")).Str("access_token")
			op := func() *Obs {
				act, io := w.Active(at)
				if !act {
					io.Err = "genuine-token-reported-inactive"
				}
				return io
			}
			return []func() *Obs{op, op}, false
		}))
	}
	registerScenario(c19APIScenario("parpush-deviceauth", def, func(w *World) ([]func() *Obs, bool) {
		// three independent random-byte consumers: PAR request_uri (no lock), device code (device strategy's lock), access token (core strategy's lock)
		return []func() *Obs{
			func() *Obs {
				return w.PAR(url.Values{"client_id": {"A"}, "redirect_uri": {"https://A.example/cb"}, "state": {"state-12345678"}, "response_type": {"code"}, "scope": {"a"}}, w.AuthFor("A"))
			},
			func() *Obs { return w.DeviceAuth(url.Values{"client_id": {"B"}, "scope": {"a"}}, w.AuthFor("B")) },
		}, false
	}))
	registerScenario(c19APIScenario("issue-deviceauth", def, func(w *World) ([]func() *Obs, bool) {
		return []func() *Obs{
			func() *Obs {
				return w.Token(url.Values{"grant_type": {"client_credentials"}, "scope": {"a"}}, w.AuthFor("A"))
			},
			func() *Obs { return w.DeviceAuth(url.Values{"client_id": {"B"}, "scope": {"a"}}, w.AuthFor("B")) },
		}, false
	}))
	registerScenario(Scenario{Name: "mint-mint-mint", Prop: "C19", Build: func() (*World, []func(), func(x *Exec) []Violation) {
		w := NewWorld(def)
		strat := w.HMAC
		out := make([][]string, 3)
		var bodies []func()
		for i := 0; i < 3; i++ {
			i := i
			bodies = append(bodies, func() {
				for k := 0; k < 2; k++ {
					t, _, err := strat.GenerateAccessToken(context.Background(), nil)
					if err == nil {
						out[i] = append(out[i], t)
						if verr := strat.Enigma.Validate(context.Background(), strings.TrimPrefix(t, "ory_at_")); verr != nil {
							out[i] = append(out[i], "INVALID:"+t)
						}
					}
				}
			})
		}
		return w, bodies, func(x *Exec) []Violation {
			seen := map[string]bool{}
			var vs []Violation
			for _, ts := range out {
				for _, t := range ts {
					if strings.HasPrefix(t, "INVALID:") {
						vs = append(vs, Violation{Fingerprint: "C19/minted-token-does-not-validate", What: "a token minted while other goroutines mint does not validate", Expected: "valid", Observed: t})
						continue
					}
					if seen[t] {
						vs = append(vs, Violation{Fingerprint: "C19/same-value-returned-twice/mint", What: "token generation returned the same value to two callers", Expected: "distinct", Observed: t})
					}
					seen[t] = true
				}
			}
			execNotes[x] = fmt.Sprintf("minted=%d", len(seen))
			return vs
		}
	}})
	// raw store operations: every triple must be linearizable
	for _, tbl := range c19Tables {
		for _, tr := range c19Triples(len(tbl.All)) {
			registerScenario(c19StoreTripleScenario(tbl, tr))
		}
	}
	registerWorker("c19store", func(arg json.RawMessage) (any, error) {
		var j struct {
			Table string
			Bound int
			Part  int
			Parts int
		}
		if err := json.Unmarshal(arg, &j); err != nil {
			return nil, err
		}
		res := &WRes{}
		for _, tbl := range c19Tables {
			if tbl.Name != j.Table {
				continue
			}
			for i, tr := range c19Triples(len(tbl.All)) {
				if i%j.Parts != j.Part {
					continue
				}
				sub := &WRes{}
				schedExplore(schedCase{Scenario: fmt.Sprintf("store/%s/%d-%d-%d", tbl.Name, tr[0], tr[1], tr[2]), LockPoints: true, Bound: j.Bound}, sub)
				sub.Samples = nil
				sub.Notes = nil
				mergeWRes(res, sub)
			}
			res.sample(map[string]any{"table": tbl.Name, "operations": len(tbl.All), "triples": len(c19Triples(len(tbl.All))), "preemption_bound": j.Bound})
		}
		return res, nil
	})
	registerCheck("C19", "model_checking", 240*time.Second, 40*time.Minute, func(r *Run) {
		b2, b3, bs := 2, 1, 2
		if !r.Quick() {
			b2, b3, bs = 3, 2, -1
		}
		var jobs []any
		var names []string
		for n, sc := range scenarios {
			if sc.Prop == "C19" && !strings.HasPrefix(n, "store/") {
				names = append(names, n)
			}
		}
		sort.Strings(names)
		bs4, unboundedLimit := 4, 20000
		if !r.Quick() {
			bs4, unboundedLimit = 6, 400000
		}
		storageBounds := map[string]int{}
		three := map[string]bool{"refresh-revoke-introspect": true, "redeem-introspect-authorize": true, "mint-mint-mint": true}
		for _, n := range names {
			b := b2
			if three[n] {
				b = b3
			}
			jobs = append(jobs, schedShards(schedCase{Scenario: n, LockPoints: true, Bound: b, MaxExecs: 300000})...)
			if !three[n] {
				// storage-call granularity: all interleavings of the two requests when that is feasible, else a deeper preemption bound
				sb := bs4
				if pts := schedPoints(schedCase{Scenario: n, LockPoints: false}); binom(pts, pts/2) <= unboundedLimit {
					sb = -1
				}
				if r.Quick() && n == "poll-poll-oidc" {
					sb = bs4 // its non-preemptive execution is short (the second poll is refused early) and under-estimates the tree: 96 k interleavings
				}
				storageBounds[n] = sb
				jobs = append(jobs, schedShards(schedCase{Scenario: n, LockPoints: false, Bound: sb, MaxExecs: 300000})...)
			}
		}
		res := r.Pool.Do("sched", jobs, r.Deadline)
		if !r.MergeJobs(res) {
			r.Exhaustive = false
		}
		var sj []any
		for _, t := range c19Tables {
			for p := 0; p < 4; p++ {
				sj = append(sj, map[string]any{"Table": t.Name, "Bound": bs, "Part": p, "Parts": 4})
			}
		}
		res = r.Pool.Do("c19store", sj, r.Deadline)
		if !r.MergeJobs(res) {
			r.Exhaustive = false
		}
		// vacuity: a scenario in which no operation ever succeeds explores error paths only (a broken set-up)
		for _, n := range names {
			if n == "mint-mint-mint" || n == "default-config-getters" || n == "i18n-errors" {
				continue // no token request in these (i18n-errors: two refusals by construction)
			}
			alive := false
			for cls := range r.Agg.Classes {
				if !strings.HasPrefix(cls, n+":[") {
					continue
				}
				body := cls[len(n)+2:]
				if i := strings.Index(body, "]"); i >= 0 {
					body = body[:i]
				}
				for _, o := range strings.Fields(body) {
					if !strings.HasPrefix(o, "invalid_") && !strings.Contains(o, "error") && o != "nil" && !strings.HasPrefix(o, "unauthorized") && !strings.HasPrefix(o, "access_denied") {
						alive = true
					}
				}
			}
			if !alive && r.Exhaustive {
				r.HarnessErrs = append(r.HarnessErrs, "vacuous scenario "+n+": no operation succeeded in any explored execution")
			}
		}
		// memory the scheduler's hooks cannot see: the backing array of a Config slice handed to a callee that appends
		if !r.MergeJobs(r.Pool.Do("c19sharedconfig", []any{map[string]string{}}, r.Deadline)) {
			r.Exhaustive = false
		}
		r.Bounds = map[string]any{"shared_config_slices": "Config.SanitationWhiteList / RefreshTokenScopes / AllowedPromptValues built with spare capacity: no request may write into the spare capacity (every request would, concurrently and unsynchronised)", "api_scenarios": names, "preemption_bound_2_threads": b2, "preemption_bound_3_threads": b3, "storage_call_granularity_bounds (-1 = all interleavings)": storageBounds,
			"store_triples": "every multiset of 3 operations per table (5 tables, 30 operations) on colliding keys from a populated state", "store_triple_preemption_bound": bs}
		r.Rule = "stateless depth-first exploration of schedules of the real code under a cooperative scheduler: decision points at every storage call, random read and (lock granularity) lock acquisition of the vsync shim; each complete execution is checked for deadlock, panic, happens-before data races on instrumented fields, duplicate token values, inactive handed-out tokens, and (store triples) equality of results + final store dump with some sequential permutation; states = executions, transitions = scheduling points; distinct = distinct observable outcomes per scenario"
		r.Assumptions = []string{"race freedom is decided for fields accessed inside pointer-receiver methods of ory/fosite types (overlay access hooks); other memory is not observed", "2-3 goroutines; preemption bounds as stated", "Go's memory model gives sequential consistency for race-free executions, so interleaving semantics is adequate once no race is reported"}
	})
}

// ---- store-operation triples

type c19StoreOp struct {
	Name string
	Do   func(w *World, r *fosite.Request) string // returns a printable result
}

type c19Table struct {
	Name string
	Ops  [][3]int // triples of op indices
	All  []c19StoreOp
}

func mkReq(id string) *fosite.Request {
	r := fosite.NewRequest()
	r.ID = id
	r.Client = &fosite.DefaultClient{ID: "A"}
	r.Session = NewSess("u")
	r.RequestedAt = Epoch
	return r
}

func errS(err error) string {
	if err == nil {
		return "ok"
	}
	return fosite.ErrorToRFC6749Error(err).ErrorField
}

var c19Tables = func() []c19Table {
	ctx := context.Background()
	rt := []c19StoreOp{
		{"CreateRT(s1,id1)", func(w *World, _ *fosite.Request) string {
			return errS(w.Store.CreateRefreshTokenSession(ctx, "s1", "a1", mkReq("id1")))
		}},
		{"CreateRT(s2,id1)", func(w *World, _ *fosite.Request) string {
			return errS(w.Store.CreateRefreshTokenSession(ctx, "s2", "a2", mkReq("id1")))
		}},
		{"GetRT(s1)", func(w *World, _ *fosite.Request) string {
			_, err := w.Store.GetRefreshTokenSession(ctx, "s1", nil)
			return errS(err)
		}},
		{"DeleteRT(s1)", func(w *World, _ *fosite.Request) string { return errS(w.Store.DeleteRefreshTokenSession(ctx, "s1")) }},
		{"RevokeRT(id1)", func(w *World, _ *fosite.Request) string { return errS(w.Store.RevokeRefreshToken(ctx, "id1")) }},
		{"RotateRT(id1,s1)", func(w *World, _ *fosite.Request) string { return errS(w.Store.RotateRefreshToken(ctx, "id1", "s1")) }},
	}
	at := []c19StoreOp{
		{"CreateAT(a1,id1)", func(w *World, _ *fosite.Request) string {
			return errS(w.Store.CreateAccessTokenSession(ctx, "a1", mkReq("id1")))
		}},
		{"CreateAT(a2,id1)", func(w *World, _ *fosite.Request) string {
			return errS(w.Store.CreateAccessTokenSession(ctx, "a2", mkReq("id1")))
		}},
		{"GetAT(a1)", func(w *World, _ *fosite.Request) string {
			_, err := w.Store.GetAccessTokenSession(ctx, "a1", nil)
			return errS(err)
		}},
		{"DeleteAT(a1)", func(w *World, _ *fosite.Request) string { return errS(w.Store.DeleteAccessTokenSession(ctx, "a1")) }},
		{"RevokeAT(id1)", func(w *World, _ *fosite.Request) string { return errS(w.Store.RevokeAccessToken(ctx, "id1")) }},
	}
	code := []c19StoreOp{
		{"CreateCode(c1)", func(w *World, _ *fosite.Request) string {
			return errS(w.Store.CreateAuthorizeCodeSession(ctx, "c1", mkReq("id1")))
		}},
		{"GetCode(c1)", func(w *World, _ *fosite.Request) string {
			_, err := w.Store.GetAuthorizeCodeSession(ctx, "c1", nil)
			return errS(err)
		}},
		{"InvalidateCode(c1)", func(w *World, _ *fosite.Request) string {
			return errS(w.Store.InvalidateAuthorizeCodeSession(ctx, "c1"))
		}},
		{"CreatePKCE(c1)", func(w *World, _ *fosite.Request) string {
			return errS(w.Store.CreatePKCERequestSession(ctx, "c1", mkReq("id1")))
		}},
		{"GetPKCE(c1)", func(w *World, _ *fosite.Request) string {
			_, err := w.Store.GetPKCERequestSession(ctx, "c1", nil)
			return errS(err)
		}},
		{"DeletePKCE(c1)", func(w *World, _ *fosite.Request) string { return errS(w.Store.DeletePKCERequestSession(ctx, "c1")) }},
	}
	misc := []c19StoreOp{
		{"SetJTI(j1)", func(w *World, _ *fosite.Request) string {
			return errS(w.Store.SetClientAssertionJWT(ctx, "j1", Epoch.Add(time.Hour)))
		}},
		{"JTIValid(j1)", func(w *World, _ *fosite.Request) string { return errS(w.Store.ClientAssertionJWTValid(ctx, "j1")) }},
		{"MarkJWT(j1)", func(w *World, _ *fosite.Request) string {
			return errS(w.Store.MarkJWTUsedForTime(ctx, "j1", Epoch.Add(time.Hour)))
		}},
		{"CreatePAR(u1)", func(w *World, _ *fosite.Request) string {
			ar := fosite.NewAuthorizeRequest()
			ar.Request = *mkReq("id1")
			return errS(w.Store.CreatePARSession(ctx, "u1", ar))
		}},
		{"GetPAR(u1)", func(w *World, _ *fosite.Request) string { _, err := w.Store.GetPARSession(ctx, "u1"); return errS(err) }},
		{"DeletePAR(u1)", func(w *World, _ *fosite.Request) string { return errS(w.Store.DeletePARSession(ctx, "u1")) }},
		{"CreateOIDC(c1)", func(w *World, _ *fosite.Request) string {
			return errS(w.Store.CreateOpenIDConnectSession(ctx, "c1", mkReq("id1")))
		}},
		{"GetOIDC(c1)", func(w *World, _ *fosite.Request) string {
			_, err := w.Store.GetOpenIDConnectSession(ctx, "c1", nil)
			return errS(err)
		}},
		{"DeleteOIDC(c1)", func(w *World, _ *fosite.Request) string { return errS(w.Store.DeleteOpenIDConnectSession(ctx, "c1")) }},
	}
	dev := []c19StoreOp{
		{"CreateDev(d1,u1)", func(w *World, _ *fosite.Request) string {
			dr := fosite.NewDeviceRequest()
			dr.Request = *mkReq("id1")
			return errS(w.Store.CreateDeviceAuthSession(ctx, "d1", "u1", dr))
		}},
		{"GetDev(d1)", func(w *World, _ *fosite.Request) string {
			_, err := w.Store.GetDeviceCodeSession(ctx, "d1", nil)
			return errS(err)
		}},
		{"InvalidateDev(d1)", func(w *World, _ *fosite.Request) string { return errS(w.Store.InvalidateDeviceCodeSession(ctx, "d1")) }},
		{"GetClient(A)", func(w *World, _ *fosite.Request) string { _, err := w.Store.GetClient(ctx, "A"); return errS(err) }},
	}
	mk := func(name string, ops []c19StoreOp) c19Table { return c19Table{Name: name, All: ops} }
	return []c19Table{mk("refresh-tokens", rt), mk("access-tokens", at), mk("codes-pkce", code), mk("jti-par-oidc", misc), mk("device", dev)}
}()

func c19Triples(n int) [][3]int {
	var out [][3]int
	for a := 0; a < n; a++ {
		for b := a; b < n; b++ {
			for c := b; c < n; c++ {
				out = append(out, [3]int{a, b, c})
			}
		}
	}
	return out
}

func c19StoreTripleScenario(t c19Table, tr [3]int) Scenario {
	name := fmt.Sprintf("store/%s/%d-%d-%d", t.Name, tr[0], tr[1], tr[2])
	seed := func(w *World) {
		// a populated starting state so that get/delete/revoke have something to hit
		ctx := context.Background()
		w.Mem.CreateRefreshTokenSession(ctx, "s1", "a1", mkReq("id1"))
		w.Mem.CreateAccessTokenSession(ctx, "a1", mkReq("id1"))
		w.Mem.CreateAuthorizeCodeSession(ctx, "c1", mkReq("id1"))
		w.Mem.CreatePKCERequestSession(ctx, "c1", mkReq("id1"))
		w.Mem.CreateOpenIDConnectSession(ctx, "c1", mkReq("id1"))
		dr := fosite.NewDeviceRequest()
		dr.Request = *mkReq("id1")
		w.Mem.CreateDeviceAuthSession(ctx, "d1", "u1", dr)
	}
	final := func(w *World) string {
		lines := strings.Split(nameRx.ReplaceAllString(w.Store.Dump(NewNamer(), Epoch), "$1#"), "\n")
		sort.Strings(lines) // names are erased first: the order must not depend on them
		return strings.Join(lines, "\n")
	}
	// sequential reference: all permutations
	seqResults := func() map[string]bool {
		res := map[string]bool{}
		perms := [][3]int{{0, 1, 2}, {0, 2, 1}, {1, 0, 2}, {1, 2, 0}, {2, 0, 1}, {2, 1, 0}}
		for _, p := range perms {
			w := NewWorld(Profile{})
			seed(w)
			out := make([]string, 3)
			for _, pos := range p {
				out[pos] = t.All[tr[pos]].Do(w, nil)
			}
			res[strings.Join(out, ",")+"|"+final(w)] = true
		}
		return res
	}
	var ref map[string]bool
	return Scenario{Name: name, Prop: "C19", Build: func() (*World, []func(), func(x *Exec) []Violation) {
		if ref == nil {
			ref = seqResults()
		}
		w := NewWorld(Profile{})
		seed(w)
		out := make([]string, 3)
		var bodies []func()
		for i := 0; i < 3; i++ {
			i := i
			bodies = append(bodies, func() { out[i] = t.All[tr[i]].Do(w, nil) })
		}
		return w, bodies, func(x *Exec) []Violation {
			key := strings.Join(out, ",") + "|" + final(w)
			execNotes[x] = shortHash(key)[:8]
			if !ref[key] {
				if os.Getenv("VERIF_DEBUG") != "" {
					fmt.Fprintf(os.Stderr, "OBSERVED %q\n", key)
					for k := range ref {
						fmt.Fprintf(os.Stderr, "REF      %q\n", k)
					}
				}
				ops := []string{t.All[tr[0]].Name, t.All[tr[1]].Name, t.All[tr[2]].Name}
				return []Violation{{Fingerprint: fmt.Sprintf("C19/store-not-linearizable/%s/%s", t.Name, strings.Join(ops, "+")), What: fmt.Sprintf("concurrent %v produced results %v and a final store state that no sequential order of the three operations produces", ops, out), Expected: "some sequential order", Observed: out}}
			}
			return nil
		}
	}}
}

func binom(n, k int) int {
	r := 1
	for i := 1; i <= k; i++ {
		r = r * (n - k + i) / i
		if r > 1<<40 {
			return r
		}
	}
	return r
}

// schedPoints: number of scheduling points of the non-preemptive execution
func schedPoints(c schedCase) int {
	x, _ := schedRunOnce(scenarios[c.Scenario], c, nil)
	return len(x.Points)
}

// c19SharedConfig: slices of the Config are shared by all requests. A request that appends to one of them (instead of
// to a copy) writes into its backing array whenever it has spare capacity: an unsynchronised write by every request.
// The access hooks do not see element writes of a slice passed as an argument, so this is checked on the state: after
// each kind of request the spare capacity must be untouched.
func c19SharedConfig(res *WRes) {
	mk := func(vals ...string) []string { return append(make([]string, 0, 16), vals...) }
	w := NewWorld(Profile{})
	w.Cfg.SanitationWhiteList = mk("code", "redirect_uri")
	w.Cfg.RefreshTokenScopes = mk("offline", "offline_access")
	w.Cfg.AllowedPromptValues = mk("login", "none", "consent", "select_account")
	slices := map[string]*[]string{"SanitationWhiteList": &w.Cfg.SanitationWhiteList, "RefreshTokenScopes": &w.Cfg.RefreshTokenScopes, "AllowedPromptValues": &w.Cfg.AllowedPromptValues}
	check := func(after string) {
		for name, sl := range slices {
			full := (*sl)[:cap(*sl)]
			for i := len(*sl); i < len(full); i++ {
				if full[i] != "" {
					res.violate(Violation{Property: "C19", Fingerprint: "C19/request-writes-into-shared-config-slice/" + name, What: fmt.Sprintf("%s wrote %q into the spare capacity of Config.%s (element %d): the slice's backing array is shared by all requests, so concurrent requests write it without synchronisation", after, full[i], name, i), Engine: "c19sharedconfig", Case: map[string]string{}, Expected: "requests append to a copy", Observed: full})
					return
				}
			}
		}
	}
	ops := []struct {
		name string
		do   func()
	}{
		{"an authorization request (code flow)", func() { c19Authz(w, "A", "code", "offline a") }},
		{"an authorization request (hybrid flow)", func() { c19Authz(w, "A", "code id_token", "openid offline a") }},
		{"an authorization request (implicit flow)", func() { c19Authz(w, "A", "token", "a") }},
		{"a password grant and its refresh", func() {
			o := w.Token(url.Values{"grant_type": {"password"}, "username": {"peter"}, "password": {"pw-peter"}, "scope": {"offline a"}}, w.AuthFor("A"))
			w.Token(url.Values{"grant_type": {"refresh_token"}, "refresh_token": {o.Str("refresh_token")}}, w.AuthFor("A"))
		}},
		{"a code redemption", func() {
			code := c19Authz(w, "A", "code", "openid offline a").Param("code")
			w.Token(url.Values{"grant_type": {"authorization_code"}, "code": {code}, "redirect_uri": {"https://A.example/cb"}}, w.AuthFor("A"))
		}},
		{"a pushed authorization request and its use", func() {
			ru := w.PAR(url.Values{"client_id": {"A"}, "redirect_uri": {"https://A.example/cb"}, "state": {"state-12345678"}, "response_type": {"code"}, "scope": {"a"}}, w.AuthFor("A")).Str("request_uri")
			w.Authorize(url.Values{"client_id": {"A"}, "request_uri": {ru}}, AuthzOpts{})
		}},
		{"a device authorization and poll", func() {
			do := w.DeviceAuth(url.Values{"client_id": {"A"}, "scope": {"offline a"}}, w.AuthFor("A"))
			w.AcceptUserCode(do.Str("user_code"), true)
			w.Token(url.Values{"grant_type": {"urn:ietf:params:oauth:grant-type:device_code"}, "device_code": {do.Str("device_code")}}, w.AuthFor("A"))
		}},
	}
	for _, op := range ops {
		op.do()
		res.Evals++
		res.Trans++
		res.distinct("shared-config|" + op.name)
		n := len(res.Viol)
		check(op.name)
		if len(res.Viol) > n {
			return
		}
	}
	res.note("shared-config-slices-checked")
}

func init() {
	registerWorker("c19sharedconfig", func(json.RawMessage) (any, error) {
		res := &WRes{}
		c19SharedConfig(res)
		return res, nil
	})
	replayFns["c19sharedconfig"] = func(json.RawMessage) ([]Violation, error) {
		res := &WRes{}
		c19SharedConfig(res)
		return res.Viol, nil
	}
}
