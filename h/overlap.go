package main

import (
	"encoding/json"
	"fmt"
	"net/url"
	"strings"
)

// Overlapping requests at API-phase granularity: n identical token requests on ONE credential, each split
// into NewAccessRequest / NewAccessResponse, in every interleaving that keeps each request's own order.
// Serves the "at most once" clauses of C01 (codes), C04 (refresh tokens), C16 (device codes), C15 (jti).

type overlapCase struct {
	Kind  string `json:"kind"` // code | code-oidc | code-pkce | refresh | refresh-oidc | device | device-contract | bearer-jti | client-assertion-jti
	N     int    `json:"n"`
	Order []int  `json:"order"` // request index per step; the first occurrence of i is its begin, the second its finish
	JWT   bool   `json:"jwt_access,omitempty"`
	Tx    bool   `json:"transactional_store,omitempty"`
}

// overlapRevoke: C08 — a refresh request is validated (NewAccessRequest), then the owner revokes the presented
// refresh token (or the access token issued alongside it), then the refresh request is completed
// (NewAccessResponse). The revocation was accepted before the exchange took place, so the exchange is a later
// use of a revoked token: it must not produce live tokens.
func overlapRevoke(c overlapCase, res *WRes) {
	if c.Kind == "refresh-vs-code-replay" {
		overlapCodeReplay(c, res)
		return
	}
	w := NewWorld(Profile{JWTAccess: c.JWT, Tx: c.Tx})
	auth := w.AuthFor("A")
	first := w.Token(url.Values{"grant_type": {"password"}, "username": {"peter"}, "password": {"pw-peter"}, "scope": {"offline a"}}, auth)
	rt, at := first.Str("refresh_token"), first.Str("access_token")
	pend := w.TokenBegin(url.Values{"grant_type": {"refresh_token"}, "refresh_token": {rt}}, auth)
	victim := rt
	if c.Kind == "refresh-vs-revoke-at" {
		victim = at
	}
	ro := w.Revoke(victim, "", auth)
	out := w.TokenFinish(pend)
	res.Trans += 3
	res.class(fmt.Sprintf("%s:revoke=%s:finish=%s", c.Kind, ro.Class(), out.Class()))
	res.distinct(fmt.Sprintf("%s|%v|%v|%s", c.Kind, c.JWT, c.Tx, out.Class()))
	if ro.RevokeClass() != "" {
		res.note("sanity:revocation-refused:" + c.Kind)
		return
	}
	if issued(out) {
		live := 0
		for _, t := range []string{out.Str("access_token"), out.Str("refresh_token")} {
			if a, _ := w.Active(t); a {
				live++
			}
		}
		if live > 0 {
			res.violate(Violation{Property: "C08", Fingerprint: "C08/overlapping-requests/refresh-completed-after-accepted-revocation/" + c.Kind,
				What:   fmt.Sprintf("a refresh request validated before, and completed after, the owner's accepted revocation of the %s yielded %d live token(s) of the revoked grant", map[string]string{"refresh-vs-revoke": "presented refresh token", "refresh-vs-revoke-at": "access token issued alongside it"}[c.Kind], live),
				Engine: "overlap", Case: c, Expected: "refusal (or tokens that are inactive)", Observed: out.JSON})
		}
	}
	for _, t := range []string{rt, at} {
		if a, _ := w.Active(t); a {
			res.violate(Violation{Property: "C08", Fingerprint: "C08/overlapping-requests/revoked-token-active-after-overlapping-refresh/" + c.Kind,
				What: "after the accepted revocation and the overlapping refresh, a token of the revoked pair is active again", Engine: "overlap", Case: c, Expected: "inactive", Observed: t})
		}
	}
}

// overlapCodeReplay: C01 — a refresh of the code's refresh token is validated, then the code is presented again
// (refused, and the family is revoked "from that moment"), then the refresh is completed: it must not produce live
// tokens of the revoked grant.
func overlapCodeReplay(c overlapCase, res *WRes) {
	w := NewWorld(Profile{JWTAccess: c.JWT, Tx: c.Tx})
	auth := w.AuthFor("A")
	code := c19Authz(w, "A", "code", "offline a").Param("code")
	cf := url.Values{"grant_type": {"authorization_code"}, "code": {code}, "redirect_uri": {"https://A.example/cb"}}
	first := w.Token(cf, auth)
	rt, at := first.Str("refresh_token"), first.Str("access_token")
	if rt == "" {
		res.note("sanity:no-refresh-token")
		return
	}
	pend := w.TokenBegin(url.Values{"grant_type": {"refresh_token"}, "refresh_token": {rt}}, auth)
	rep := w.Token(cf, auth)
	out := w.TokenFinish(pend)
	res.Trans += 3
	res.class(fmt.Sprintf("%s:replay=%s:finish=%s", c.Kind, rep.Class(), out.Class()))
	res.distinct(fmt.Sprintf("%s|%v|%v|%s", c.Kind, c.JWT, c.Tx, out.Class()))
	if issued(rep) {
		res.violate(Violation{Property: "C01", Fingerprint: "C01/overlapping-requests/code-replay-yielded-tokens", What: "a second presentation of a redeemed code yielded tokens", Engine: "overlap", Case: c, Expected: "invalid_grant", Observed: rep.JSON})
		return
	}
	live := 0
	for _, t := range []string{out.Str("access_token"), out.Str("refresh_token"), rt, at} {
		if t == "" {
			continue
		}
		if a, _ := w.Active(t); a {
			live++
		}
	}
	if live > 0 {
		res.violate(Violation{Property: "C01", Fingerprint: "C01/overlapping-requests/refresh-completed-after-code-replay",
			What:   fmt.Sprintf("a refresh validated before, and completed after, the replay of the code (answered %s) left %d token(s) of that code's grant active", rep.Class(), live),
			Engine: "overlap", Case: c, Expected: "every token obtained from the code, directly or through refreshes, inactive", Observed: out.JSON})
	}
}

var overlapProp = map[string]string{"code": "C01", "code-oidc": "C01", "code-pkce": "C01", "refresh": "C04", "refresh-oidc": "C04", "device": "C16", "device-contract": "C16", "bearer-jti": "C15", "client-assertion-jti": "C15"}

func overlapOrders(n int) [][]int {
	var out [][]int
	cnt := make([]int, n)
	var rec func(cur []int)
	rec = func(cur []int) {
		if len(cur) == 2*n {
			out = append(out, append([]int(nil), cur...))
			return
		}
		for i := 0; i < n; i++ {
			// symmetry: request i may begin only after request i-1 began (identical requests)
			if cnt[i] == 0 && i > 0 && cnt[i-1] == 0 {
				continue
			}
			if cnt[i] < 2 {
				cnt[i]++
				rec(append(cur, i))
				cnt[i]--
			}
		}
	}
	rec(nil)
	return out
}

func overlapRun(c overlapCase, res *WRes) {
	if strings.HasPrefix(c.Kind, "refresh-vs-") {
		overlapRevoke(c, res)
		return
	}
	prop := overlapProp[c.Kind]
	p := Profile{JWTAccess: c.JWT, Tx: c.Tx, ContractDevice: c.Kind == "device-contract"}
	w := NewWorld(p)
	var form url.Values
	auth := w.AuthFor("A")
	flow := map[string]string{"code": "code", "code-oidc": "code-oidc", "code-pkce": "code-pkce", "refresh": "refresh", "refresh-oidc": "refresh-oidc", "device": "device", "device-contract": "device", "bearer-jti": "jwt-bearer", "client-assertion-jti": "client-assertion"}[c.Kind]
	// reuse the C18 flow setup: its target closure knows the form; rebuild the form here instead
	switch flow {
	case "code", "code-oidc":
		scope := "offline a"
		if flow == "code-oidc" {
			scope = "openid offline a"
		}
		code := c19Authz(w, "A", "code", scope).Param("code")
		form = url.Values{"grant_type": {"authorization_code"}, "code": {code}, "redirect_uri": {"https://A.example/cb"}}
	case "code-pkce":
		o := w.Authorize(url.Values{"client_id": {"P"}, "redirect_uri": {"https://P.example/cb"}, "state": {"state-12345678"}, "response_type": {"code"}, "scope": {"offline a"}, "code_challenge": {s256(pkceV0)}, "code_challenge_method": {"S256"}}, AuthzOpts{})
		form = url.Values{"grant_type": {"authorization_code"}, "code": {o.Param("code")}, "redirect_uri": {"https://P.example/cb"}, "code_verifier": {pkceV0}}
		auth = w.AuthFor("P")
	case "refresh", "refresh-oidc":
		var first *Obs
		if flow == "refresh-oidc" {
			code := c19Authz(w, "A", "code", "openid offline a").Param("code")
			first = w.Token(url.Values{"grant_type": {"authorization_code"}, "code": {code}, "redirect_uri": {"https://A.example/cb"}}, auth)
		} else {
			first = w.Token(url.Values{"grant_type": {"password"}, "username": {"peter"}, "password": {"pw-peter"}, "scope": {"offline a"}}, auth)
		}
		form = url.Values{"grant_type": {"refresh_token"}, "refresh_token": {first.Str("refresh_token")}}
	case "device":
		do := w.DeviceAuth(url.Values{"client_id": {"A"}, "scope": {"offline a"}}, auth)
		w.AcceptUserCode(do.Str("user_code"), true)
		form = url.Values{"grant_type": {"urn:ietf:params:oauth:grant-type:device_code"}, "device_code": {do.Str("device_code")}}
	case "jwt-bearer", "client-assertion":
		pl := c18Setup(w, flow)
		_ = pl
		cc := c15Case{Use: map[string]string{"jwt-bearer": "bearer", "client-assertion": "client-assertion"}[flow], Alg: "ES256", Kid: "registered", Key: "registered", Claim: "valid"}
		w = c15World(cc)
		as, _, _ := c15Assertion(w, cc, "jti-overlap")
		if flow == "jwt-bearer" {
			form = url.Values{"grant_type": {"urn:ietf:params:oauth:grant-type:jwt-bearer"}, "assertion": {as}, "scope": {"a"}}
			auth = w.AuthFor("A")
		} else {
			form = url.Values{"grant_type": {"client_credentials"}, "scope": {"a"}}
			auth = Auth{Mode: "omit", Extra: url.Values{"client_assertion_type": {"urn:ietf:params:oauth:client-assertion-type:jwt-bearer"}, "client_assertion": {as}}}
		}
	}
	pend := make([]*PendingToken, c.N)
	outs := make([]*Obs, c.N)
	for _, i := range c.Order {
		if pend[i] == nil {
			pend[i] = w.TokenBegin(form, auth)
		} else {
			outs[i] = w.TokenFinish(pend[i])
		}
		res.Trans++
	}
	succ := 0
	var cls []string
	for _, o := range outs {
		if o != nil && issued(o) {
			succ++
		}
		if o != nil {
			cls = append(cls, o.Class())
		}
	}
	res.class(fmt.Sprintf("%s:successes=%d", c.Kind, succ))
	res.distinct(fmt.Sprintf("%s|%v|%v|%v|%v", c.Kind, c.Order, c.JWT, c.Tx, cls))
	if succ > 1 {
		what := map[string]string{"C01": "authorization code", "C04": "refresh token", "C16": "device code", "C15": "jti"}[prop]
		res.violate(Violation{Property: prop, Fingerprint: fmt.Sprintf("%s/overlapping-requests/%s-accepted-%d-times/%s", prop, strings.ReplaceAll(what, " ", "-"), succ, c.Kind),
			What:   fmt.Sprintf("%d overlapping token requests presenting one %s (NewAccessRequest / NewAccessResponse interleaved as %v): %d succeeded %v", c.N, what, c.Order, succ, cls),
			Engine: "overlap", Case: c, Expected: "at most one success", Observed: cls})
	}
	if succ == 0 {
		res.note("sanity:no-success:" + c.Kind)
	}
}

func overlapJobs(kinds []string, maxN int, jwt []bool, tx []bool) []any {
	var jobs []any
	for _, k := range kinds {
		for n := 2; n <= maxN; n++ {
			for _, j := range jwt {
				for _, t := range tx {
					jobs = append(jobs, map[string]any{"Kind": k, "N": n, "JWT": j, "Tx": t})
				}
			}
		}
	}
	return jobs
}

func init() {
	registerWorker("overlap", func(arg json.RawMessage) (any, error) {
		var j struct {
			Kind    string
			N       int
			JWT, Tx bool
		}
		if err := json.Unmarshal(arg, &j); err != nil {
			return nil, err
		}
		res := &WRes{}
		if strings.HasPrefix(j.Kind, "refresh-vs-") {
			if j.N != 2 {
				return res, nil
			}
			c := overlapCase{Kind: j.Kind, N: 2, JWT: j.JWT, Tx: j.Tx}
			n := len(res.Viol)
			overlapRun(c, res)
			res.Evals++
			res.States++
			res.Traces++
			if len(res.Viol) == n {
				res.sample(c)
			}
			return res, nil
		}
		for _, ord := range overlapOrders(j.N) {
			c := overlapCase{Kind: j.Kind, N: j.N, Order: ord, JWT: j.JWT, Tx: j.Tx}
			n := len(res.Viol)
			overlapRun(c, res)
			res.Evals++
			res.States++
			res.Traces++
			if len(res.Viol) == n {
				res.sample(c)
			}
		}
		return res, nil
	})
	replayFns["overlap"] = func(raw json.RawMessage) ([]Violation, error) {
		var c overlapCase
		if err := json.Unmarshal(raw, &c); err != nil {
			return nil, err
		}
		res := &WRes{}
		overlapRun(c, res)
		return res.Viol, nil
	}
}
