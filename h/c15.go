package main

import (
	"encoding/json"
	"fmt"
	"net/url"
	"strings"
	"time"

	"github.com/ory/fosite"
	"github.com/ory/fosite/storage"
)

// C15 — JWT assertions are verified completely and each jti is accepted once.

type c15Case struct {
	Use         string `json:"use"`   // client-assertion | bearer
	Alg         string `json:"alg"`   // header alg
	Kid         string `json:"kid"`   // registered | absent | unknown
	Key         string `json:"key"`   // registered | other-party | unregistered
	Claim       string `json:"claim"` // which single deviation from a valid claim set
	JTIOpt      bool   `json:"jti_optional,omitempty"`
	IATOpt      bool   `json:"iat_optional,omitempty"`
	Scope       string `json:"scope,omitempty"`
	Replay      string `json:"replay,omitempty"` // none | immediately | after-other-requests | after-expiry
	NoKeyScopes bool   `json:"key_registered_without_scopes,omitempty"`
}

var c15Algs = []string{"ES256", "RS256", "PS256", "ES384", "none", "HS256"}
var c15Kids = []string{"registered", "absent", "unknown"}
var c15Keys = []string{"registered", "other-party", "unregistered"}
var c15Claims = []string{"valid", "iss-absent", "iss-other", "iss-number", "sub-absent", "sub-other", "sub-number", "aud-list", "aud-list-without", "aud-near-miss", "aud-prefix", "aud-empty", "aud-list-prefix", "iss-empty", "sub-empty", "aud-other", "aud-absent", "aud-number",
	"exp-float", "exp-float-frac", "exp-string", "exp-absent", "exp-past", "exp-past-frac", "exp-zero", "exp-negative", "exp-zero-float", "exp-too-far", "exp-at-max", "nbf-past", "nbf-future", "iat-absent", "iat-future", "jti-absent", "jti-empty", "jti-number"}

const c15Client = "J"

func c15World(c c15Case) *World {
	w := NewWorld(Profile{JTIOptional: c.JTIOpt, IATOptional: c.IATOpt})
	// client J authenticates with private_key_jwt, ES256, key ck-1 = ec256b
	jc := &fosite.DefaultOpenIDConnectClient{DefaultClient: w.AddClient(c15Client, "", false), TokenEndpointAuthMethod: "private_key_jwt", TokenEndpointAuthSigningAlgorithm: "ES256",
		JSONWebKeys: jwks(pubJWK(ecKey("ec256b"), "ck-1", "ES256"))}
	w.Mem.Clients[c15Client] = jc
	// another private_key_jwt client K with its own key
	kc := &fosite.DefaultOpenIDConnectClient{DefaultClient: w.AddClient("K", "", false), TokenEndpointAuthMethod: "private_key_jwt", TokenEndpointAuthSigningAlgorithm: "ES256",
		JSONWebKeys: jwks(pubJWK(ecKey("ec256a"), "ck-1", "ES256"))}
	w.Mem.Clients["K"] = kc
	// JWT-bearer: (issuer-1, subject-1) -> ec256b/bk-1 with scopes [a]; (issuer-2, subject-2) -> ec256a/bk-1
	k1 := pubJWK(ecKey("ec256b"), "bk-1", "ES256")
	k2 := pubJWK(ecKey("ec256a"), "bk-1", "ES256")
	ks := []string{"a"}
	if c.NoKeyScopes {
		ks = nil
	}
	w.Mem.IssuerPublicKeys["issuer-1"] = storage.IssuerPublicKeys{Issuer: "issuer-1", KeysBySub: map[string]storage.SubjectPublicKeys{
		"subject-1": {Subject: "subject-1", Keys: map[string]storage.PublicKeyScopes{"bk-1": {Key: &k1, Scopes: ks}}}}}
	w.Mem.IssuerPublicKeys["issuer-2"] = storage.IssuerPublicKeys{Issuer: "issuer-2", KeysBySub: map[string]storage.SubjectPublicKeys{
		"subject-2": {Subject: "subject-2", Keys: map[string]storage.PublicKeyScopes{"bk-1": {Key: &k2, Scopes: []string{"a", "photos"}}}}}}
	return w
}

// c15Assertion builds the assertion for the case; returns the token and whether the statement allows it to be accepted.
func c15Assertion(w *World, c c15Case, jti string) (string, bool, string) {
	now := w.Now()
	var claims map[string]any
	if c.Use == "client-assertion" {
		claims = map[string]any{"iss": c15Client, "sub": c15Client, "aud": TokenURL, "exp": now.Add(5 * time.Minute).Unix(), "iat": now.Unix(), "jti": jti}
	} else {
		claims = map[string]any{"iss": "issuer-1", "sub": "subject-1", "aud": []string{TokenURL}, "exp": now.Add(5 * time.Minute).Unix(), "iat": now.Unix(), "jti": jti}
	}
	ok := true
	why := ""
	bad := func(s string) { ok = false; why = s }
	switch c.Claim {
	case "valid":
	case "iss-absent":
		delete(claims, "iss")
		bad("iss absent")
	case "iss-other":
		claims["iss"] = "issuer-2"
		if c.Use == "client-assertion" {
			claims["iss"] = "K"
		}
		bad("iss names another party")
	case "iss-number":
		claims["iss"] = 42
		bad("iss wrong type")
	case "sub-absent":
		delete(claims, "sub")
		bad("sub absent")
	case "sub-other":
		claims["sub"] = "subject-2"
		if c.Use == "client-assertion" {
			claims["sub"] = "K"
		}
		bad("sub names another party")
	case "sub-number":
		claims["sub"] = 42
		bad("sub wrong type")
	case "aud-list":
		claims["aud"] = []string{"https://elsewhere.example", TokenURL}
	case "aud-list-without":
		claims["aud"] = []string{"https://elsewhere.example", TokenURL + "/"}
		bad("aud does not contain the token URL")
	case "aud-near-miss":
		claims["aud"] = TokenURL + "/"
		bad("aud is not the token URL")
	case "aud-prefix":
		claims["aud"] = TokenURL[:len(TokenURL)-3]
		bad("aud is a proper prefix of the token URL")
	case "aud-empty":
		claims["aud"] = ""
		bad("aud is the empty string")
	case "aud-list-prefix":
		claims["aud"] = []string{TokenURL[:len(TokenURL)-1], ""}
		bad("aud lists only prefixes of the token URL")
	case "iss-empty":
		claims["iss"] = ""
		bad("iss is the empty string")
	case "sub-empty":
		claims["sub"] = ""
		bad("sub is the empty string")
	case "aud-other":
		claims["aud"] = "https://elsewhere.example/token"
		bad("aud is another server")
	case "aud-absent":
		delete(claims, "aud")
		bad("aud absent")
	case "aud-number":
		claims["aud"] = 7
		bad("aud wrong type")
	case "exp-float":
		claims["exp"] = float64(now.Add(5 * time.Minute).Unix())
	case "exp-float-frac":
		claims["exp"] = float64(now.Add(5*time.Minute).Unix()) + 0.5
	case "exp-string":
		claims["exp"] = fmt.Sprint(now.Add(5 * time.Minute).Unix())
		bad("exp wrong type")
	case "exp-absent":
		delete(claims, "exp")
		bad("exp absent")
	case "exp-past":
		claims["exp"] = now.Add(-30 * time.Second).Unix()
		bad("expired")
	case "exp-zero":
		claims["exp"] = 0
		bad("expired (exp = 0, 1970-01-01)")
	case "exp-negative":
		claims["exp"] = -1
		bad("expired (negative exp)")
	case "exp-zero-float":
		claims["exp"] = 0.0
		bad("expired (exp = 0.0)")
	case "exp-past-frac":
		claims["exp"] = float64(now.Add(-30*time.Second).Unix()) + 0.5
		bad("expired (fractional exp)")
	case "exp-too-far":
		claims["exp"] = now.Add(2 * time.Hour).Unix()
		if c.Use == "bearer" {
			bad("exp beyond the configured maximum (1h)")
		}
	case "exp-at-max":
		claims["exp"] = now.Add(time.Hour).Unix()
	case "nbf-past":
		claims["nbf"] = now.Add(-time.Minute).Unix()
	case "nbf-future":
		claims["nbf"] = now.Add(time.Minute).Unix()
		bad("nbf in the future")
	case "iat-absent":
		delete(claims, "iat")
		if c.Use == "bearer" && !c.IATOpt {
			bad("iat absent but required")
		}
	case "iat-future":
		claims["iat"] = now.Add(2 * time.Minute).Unix()
		ok, why = true, "dontcare" // issued in the future: not pinned
	case "jti-absent":
		delete(claims, "jti")
		if c.Use == "client-assertion" || !c.JTIOpt {
			bad("jti absent")
		}
	case "jti-empty":
		claims["jti"] = ""
		if c.Use == "client-assertion" || !c.JTIOpt {
			bad("jti empty")
		}
	case "jti-number":
		claims["jti"] = 5
		bad("jti wrong type")
	}
	// key / header
	kid := map[string]string{"registered": "ck-1", "absent": "", "unknown": "zz-9"}[c.Kid]
	if c.Use == "bearer" && c.Kid == "registered" {
		kid = "bk-1"
	}
	var key any
	keyName := map[string]string{"registered": "ec256b", "other-party": "ec256a", "unregistered": "ec384"}[c.Key]
	switch {
	case c.Alg == "none":
		key = nil
		bad("unsigned")
	case c.Alg == "HS256":
		key = []byte("secret-or-public-key-bytes")
		bad("symmetric algorithm")
	case strings.HasPrefix(c.Alg, "RS") || strings.HasPrefix(c.Alg, "PS"):
		key = rsaKey(map[string]string{"registered": "rsa1", "other-party": "rsa2", "unregistered": "rsa3"}[c.Key])
		bad("not the registered key/algorithm")
	case c.Alg == "ES384":
		key = ecKey("ec384")
		bad("not the registered key/algorithm")
	default:
		key = ecKey(keyName)
		if c.Key != "registered" {
			bad("signed with a key not registered for this party")
		}
	}
	if c.Kid == "unknown" && ok {
		// a kid that names no registered key: the code may still find the key by trying all (bearer) or refuse: not pinned
		ok, why = true, "dontcare"
	}
	return signJWT(key, c.Alg, kid, claims, nil), ok, why
}

func c15Present(w *World, c c15Case, assertion string) *Obs {
	if c.Use == "client-assertion" {
		return w.Token(url.Values{"grant_type": {"client_credentials"}, "scope": {"a"}}, Auth{Mode: "omit", Extra: url.Values{"client_assertion_type": {"urn:ietf:params:oauth:client-assertion-type:jwt-bearer"}, "client_assertion": {assertion}}})
	}
	f := url.Values{"grant_type": {"urn:ietf:params:oauth:grant-type:jwt-bearer"}, "assertion": {assertion}}
	sc := c.Scope
	if sc == "" {
		sc = "a"
	}
	if sc != "-" {
		f.Set("scope", sc)
	}
	return w.Token(f, w.AuthFor("A"))
}

func c15Run(c c15Case, res *WRes) {
	w := c15World(c)
	viol := func(fp, what, exp string, obs any) {
		res.violate(Violation{Property: "C15", Fingerprint: fp, What: what, Engine: "c15", Case: c, Expected: exp, Observed: obs})
	}
	as, ok, why := c15Assertion(w, c, "jti-1")
	if c.Use == "bearer" && c.Scope != "" && c.Scope != "-" {
		keyScopes := []string{"a"}
		if c.NoKeyScopes {
			keyScopes = nil
		}
		for _, sc := range strings.Fields(c.Scope) {
			if cov, _ := refScope("hierarchic", keyScopes, sc); !cov && ok {
				ok, why = false, fmt.Sprintf("requested scope %s not covered by the key's scopes %v", sc, keyScopes)
			}
		}
	}
	if c.Use == "bearer" && c.NoKeyScopes && c.Scope == "" && ok {
		ok, why = false, "requested scope a not covered by a key registered without scopes"
	}
	o := c15Present(w, c, as)
	res.Trans++
	acc := issued(o)
	res.class(fmt.Sprintf("%s:%s:%v", c.Use, map[bool]string{true: "valid", false: "invalid"}[ok && why != "dontcare"], acc))
	if why == "dontcare" {
		res.DontCare++
		return
	}
	if acc && !ok {
		viol(fmt.Sprintf("C15/%s/accepted/%s/alg=%s/key=%s/kid=%s", c.Use, c.Claim, c.Alg, c.Key, c.Kid), fmt.Sprintf("a %s was accepted although: %s", c.Use, why), "refusal", o.JSON)
		return
	}
	if !acc && ok {
		res.note("sanity:valid-assertion-refused:" + c.Use + "/" + c.Claim + "/" + c.Kid + ":" + o.Err)
		return
	}
	if !acc {
		res.distinct(fmt.Sprintf("%+v", c))
		return
	}
	res.note("accepted")
	res.distinct(fmt.Sprintf("%+v", c))
	hasJTI := !(c.Claim == "jti-absent" || c.Claim == "jti-empty")
	if !hasJTI {
		return
	}
	// replay: the same assertion again, at several later history positions
	switch c.Replay {
	case "after-other-requests":
		w.Token(url.Values{"grant_type": {"client_credentials"}, "scope": {"a"}}, w.AuthFor("B"))
		other, _, _ := c15Assertion(w, c15Case{Use: c.Use, Alg: "ES256", Kid: "registered", Key: "registered", Claim: "valid"}, "jti-other")
		c15Present(w, c, other)
		w.Advance(20 * time.Second)
	case "after-a-longer-lived-assertion":
		// another valid assertion (own jti) that expires much later is recorded in between
		other, _, _ := c15Assertion(w, c15Case{Use: c.Use, Alg: "ES256", Kid: "registered", Key: "registered", Claim: "exp-at-max"}, "jti-longer-lived")
		if oo := c15Present(w, c, other); !issued(oo) {
			res.note("sanity:longer-lived-assertion-refused:" + oo.Class())
		}
		w.Advance(5 * time.Second)
	case "after-expiry":
		w.Advance(6 * time.Minute)
	}
	o2 := c15Present(w, c, as)
	res.Trans++
	if issued(o2) {
		viol(fmt.Sprintf("C15/%s/jti-accepted-twice/replay=%s", c.Use, c.Replay), fmt.Sprintf("the same %s (same jti) was accepted a second time (%s)", c.Use, c.Replay), "refusal", o2.JSON)
	}
}

// ---- registered algorithm: every key of the client's JWKS is a registered key, so only the algorithm decides

type c15AlgRegCase struct {
	Registered string `json:"registered_alg"` // "" = not set at registration (the default, RS256, applies)
	Alg        string `json:"header_alg"`
	Kid        bool   `json:"kid_sent"`
}

var c15RegAlgs = []string{"", "RS256", "PS256", "ES256", "ES384", "RS512"}
var c15SignAlgs = []string{"RS256", "RS384", "RS512", "PS256", "PS384", "PS512", "ES256", "ES384"}

func c15AlgRegRun(c c15AlgRegCase, res *WRes) {
	w := NewWorld(Profile{})
	// client R registers an RSA key and two EC keys; which algorithm it uses is the registration's (default RS256)
	rc := &fosite.DefaultOpenIDConnectClient{DefaultClient: w.AddClient("R", "", false), TokenEndpointAuthMethod: "private_key_jwt", TokenEndpointAuthSigningAlgorithm: c.Registered,
		JSONWebKeys: jwks(pubJWK(rsaKey("rsa1"), "r-1", ""), pubJWK(ecKey("ec256b"), "e-1", ""), pubJWK(ecKey("ec384"), "e-2", ""))}
	w.Mem.Clients["R"] = rc
	var key any
	kid := ""
	switch {
	case strings.HasPrefix(c.Alg, "RS"), strings.HasPrefix(c.Alg, "PS"):
		key, kid = rsaKey("rsa1"), "r-1"
	case c.Alg == "ES256":
		key, kid = ecKey("ec256b"), "e-1"
	default:
		key, kid = ecKey("ec384"), "e-2"
	}
	if !c.Kid {
		kid = ""
	}
	now := w.Now()
	as := signJWT(key, c.Alg, kid, map[string]any{"iss": "R", "sub": "R", "aud": TokenURL, "exp": now.Add(5 * time.Minute).Unix(), "iat": now.Unix(), "jti": "jti-alg"}, nil)
	o := w.Token(url.Values{"grant_type": {"client_credentials"}, "scope": {"a"}}, Auth{Mode: "omit", Extra: url.Values{"client_assertion_type": {"urn:ietf:params:oauth:client-assertion-type:jwt-bearer"}, "client_assertion": {as}}})
	res.Trans++
	want := c.Registered
	if want == "" {
		want = "RS256"
	}
	acc := issued(o)
	res.class(fmt.Sprintf("alg-registration:%v:%v", want == c.Alg, acc))
	res.distinct(fmt.Sprintf("algreg%+v", c))
	if acc && want != c.Alg {
		res.violate(Violation{Property: "C15", Fingerprint: fmt.Sprintf("C15/client-assertion/accepted/algorithm-not-registered/registered=%s/alg=%s", want, c.Alg),
			What: fmt.Sprintf("a client assertion signed with %s by a registered key authenticated a client whose registered algorithm is %s (registration value %q)", c.Alg, want, c.Registered), Engine: "c15algreg", Case: c, Expected: "invalid_client", Observed: o.JSON})
		return
	}
	if acc {
		res.note("accepted")
	} else if want == c.Alg && c.Kid {
		res.note("sanity:registered-algorithm-refused:" + c.Alg + ":" + o.Err)
	}
}

func c15AlgRegAll(res *WRes) {
	for _, reg := range c15RegAlgs {
		for _, alg := range c15SignAlgs {
			for _, kid := range []bool{true, false} {
				c := c15AlgRegCase{Registered: reg, Alg: alg, Kid: kid}
				n := len(res.Viol)
				c15AlgRegRun(c, res)
				res.Evals++
				if len(res.Viol) == n {
					res.sample(c)
				}
			}
		}
	}
}

// ---- concurrent presentations (all interleavings of the storage steps)

func c15Scenario(use string, n int) Scenario {
	name := fmt.Sprintf("c15-%s-x%d", use, n)
	return Scenario{Name: name, Prop: "C15", NoRaces: true, Build: func() (*World, []func(), func(x *Exec) []Violation) {
		c := c15Case{Use: use, Alg: "ES256", Kid: "registered", Key: "registered", Claim: "valid"}
		w := c15World(c)
		as, _, _ := c15Assertion(w, c, "jti-concurrent")
		results := make([]*Obs, n)
		var bodies []func()
		for i := 0; i < n; i++ {
			i := i
			bodies = append(bodies, func() { results[i] = c15Present(w, c, as) })
		}
		judge := func(x *Exec) []Violation {
			succ := 0
			var cls []string
			for _, o := range results {
				if o != nil && issued(o) {
					succ++
				}
				if o != nil {
					cls = append(cls, o.Class())
				}
			}
			execNotes[x] = fmt.Sprintf("successes=%d %v", succ, cls)
			if succ > 1 {
				return []Violation{{Fingerprint: fmt.Sprintf("C15/%s/jti-accepted-twice/concurrent-x%d", use, n), What: fmt.Sprintf("%d simultaneous presentations of the same %s (same jti): %d were accepted", n, use, succ), Expected: "at most one", Observed: cls}}
			}
			return nil
		}
		return w, bodies, judge
	}}
}

type c15Job struct {
	Use    string
	Alg    string
	JTIOpt bool
	IATOpt bool
}

func init() {
	for _, use := range []string{"client-assertion", "bearer"} {
		registerScenario(c15Scenario(use, 2))
		registerScenario(c15Scenario(use, 3))
	}
	registerWorker("c15", func(arg json.RawMessage) (any, error) {
		var j c15Job
		if err := json.Unmarshal(arg, &j); err != nil {
			return nil, err
		}
		res := &WRes{}
		if j.Use == "jwks-uri" {
			jwksURIAll("C15", res)
			return res, nil
		}
		if j.Use == "alg-registration" {
			c15AlgRegAll(res)
			return res, nil
		}
		for _, kid := range c15Kids {
			for _, key := range c15Keys {
				for _, cl := range c15Claims {
					scopes := []string{""}
					replays := []string{"immediately"}
					if cl == "valid" {
						replays = []string{"immediately", "after-other-requests", "after-a-longer-lived-assertion", "after-expiry"}
						if j.Use == "bearer" {
							scopes = []string{"", "photos", "a photos", "-", "a.b"}
						}
					}
					for _, sc := range scopes {
						for _, rp := range replays {
							for _, nks := range []bool{false, true} {
								if nks && (j.Use != "bearer" || cl != "valid" || rp != "immediately") {
									continue
								}
								c := c15Case{Use: j.Use, Alg: j.Alg, Kid: kid, Key: key, Claim: cl, JTIOpt: j.JTIOpt, IATOpt: j.IATOpt, Scope: sc, Replay: rp, NoKeyScopes: nks}
								n := len(res.Viol)
								c15Run(c, res)
								res.Evals++
								if len(res.Viol) == n {
									res.sample(c)
								}
							}
						}
					}
				}
			}
		}
		return res, nil
	})
	replayFns["c15algreg"] = func(raw json.RawMessage) ([]Violation, error) {
		var c c15AlgRegCase
		if err := json.Unmarshal(raw, &c); err != nil {
			return nil, err
		}
		res := &WRes{}
		c15AlgRegRun(c, res)
		return res.Viol, nil
	}
	replayFns["c15"] = func(raw json.RawMessage) ([]Violation, error) {
		var c c15Case
		if err := json.Unmarshal(raw, &c); err != nil {
			return nil, err
		}
		res := &WRes{}
		c15Run(c, res)
		return res.Viol, nil
	}
	registerCheck("C15", "model_checking", 150*time.Second, 30*time.Minute, func(r *Run) {
		var jobs []any
		for _, use := range []string{"client-assertion", "bearer"} {
			for _, alg := range c15Algs {
				for _, jo := range []bool{false, true} {
					for _, io := range []bool{false, true} {
						if use == "client-assertion" && (jo || io) {
							continue
						}
						jobs = append(jobs, c15Job{Use: use, Alg: alg, JTIOpt: jo, IATOpt: io})
					}
				}
			}
		}
		jobs = append(jobs, c15Job{Use: "jwks-uri"})
		jobs = append(jobs, c15Job{Use: "alg-registration"})
		res := r.Pool.Do("c15", jobs, r.Deadline)
		if !r.MergeJobs(res) {
			r.Exhaustive = false
		}
		// schedules
		var sj []any
		bound3 := 2
		if !r.Quick() {
			bound3 = 4
		}
		for _, use := range []string{"client-assertion", "bearer"} {
			sj = append(sj, schedShards(schedCase{Scenario: fmt.Sprintf("c15-%s-x2", use), LockPoints: false, Bound: -1})...)
			sj = append(sj, schedShards(schedCase{Scenario: fmt.Sprintf("c15-%s-x3", use), LockPoints: false, Bound: bound3})...)
			sj = append(sj, schedShards(schedCase{Scenario: fmt.Sprintf("c15-%s-x2", use), LockPoints: true, Bound: 2})...)
		}
		res = r.Pool.Do("sched", sj, r.Deadline)
		if !r.MergeJobs(res) {
			r.Exhaustive = false
		}
		defer overlapPart(r, []string{"bearer-jti", "client-assertion-jti"})
		r.Bounds = map[string]any{"registered_algorithm": map[string]any{"registration": c15RegAlgs, "header_alg": c15SignAlgs, "kid": []string{"sent", "absent"}, "keys": "every signing key is in the client's JWKS"}, "jwks_uri": "client assertions resolved through jwks_uri (real fetcher + cache, in-memory transport): 6 look-alike URI pairs x 6 warm-up histories x 4 cross-client presentations", "uses": []string{"private_key_jwt client assertion", "JWT-bearer grant"}, "header_alg": c15Algs, "kid": c15Kids, "signing_key": c15Keys, "claim_deviations": c15Claims,
			"optional_claim_configs": "jti optional x iat optional (bearer)", "scopes_vs_key_scopes": []string{"a", "photos", "a photos", "none", "a.b"}, "replay_positions": []string{"immediately", "after other requests + 20 s", "after a longer-lived assertion was recorded", "after expiry"},
			"schedules": fmt.Sprintf("2 simultaneous presentations: all interleavings at storage-call granularity (unbounded) and lock granularity (preemption bound 2); 3 simultaneous: storage-call granularity, preemption bound %d", bound3)}
		r.Rule = "grid: header alg x kid x key x every single claim deviation (x scopes x replay position) on a fresh provider, one-sided against the statement; schedules: stateless depth-first exploration of the real token endpoint under a cooperative scheduler, successes per jti counted on every complete execution; states = executions, transitions = scheduling points executed"
		r.Assumptions = []string{"unknown kid and iat in the future are don't-care", "scheduling points: every storage call and every random read (storage-call granularity), plus every lock acquisition (lock granularity)"}
		if r.Agg.Notes["accepted"] == 0 {
			r.HarnessErrs = append(r.HarnessErrs, "vacuous: no assertion was ever accepted")
		}
	})
}
