package main

import (
	"encoding/json"
	"flag"
	"fmt"
	"os"
	"strconv"
	"time"
)

type checkFn func(r *Run)

type checkDef struct {
	fn    checkFn
	level string
	// tier deadlines (internal; reaching one ends the run with exhaustive=false, exit 0)
	quick, thorough time.Duration
}

var checks = map[string]checkDef{}

func registerCheck(id, level string, quick, thorough time.Duration, fn checkFn) {
	checks[id] = checkDef{fn: fn, level: level, quick: quick, thorough: thorough}
}

func main() {
	if len(os.Args) < 2 {
		fmt.Fprintln(os.Stderr, "usage: h check <ID> [--tier quick|thorough] | replay <path> | worker")
		os.Exit(2)
	}
	switch os.Args[1] {
	case "worker":
		workerMain()
	case "check":
		fs := flag.NewFlagSet("check", flag.ExitOnError)
		tier := fs.String("tier", "", "quick|thorough")
		id := os.Args[2]
		fs.Parse(os.Args[3:])
		if *tier == "" {
			*tier = os.Getenv("VERIF_TIER")
		}
		if *tier == "" {
			*tier = "quick"
		}
		def, ok := checks[id]
		if !ok {
			fmt.Fprintln(os.Stderr, "unknown check", id)
			os.Exit(2)
		}
		seed, _ := strconv.ParseInt(os.Getenv("VERIF_SEED"), 10, 64)
		r := &Run{Prop: id, Tier: *tier, Seed: seed, Level: def.level, Start: time.Now(), Exhaustive: true}
		d := def.quick
		if *tier == "thorough" {
			d = def.thorough
		}
		if v := os.Getenv("VERIF_DEADLINE_S"); v != "" {
			if s, err := strconv.Atoi(v); err == nil {
				d = time.Duration(s) * time.Second
			}
		}
		r.Deadline = r.Start.Add(d)
		r.Pool = NewPool(NumWorkers(), "GOMAXPROCS=1")
		def.fn(r)
		r.Pool.Close()
		os.Exit(r.Finish())
	case "overlap":
		res := &WRes{}
		for _, k := range []string{"code", "code-oidc", "code-pkce", "refresh", "refresh-oidc", "device", "device-contract", "bearer-jti", "client-assertion-jti"} {
			for n := 2; n <= 3; n++ {
				for _, tx := range []bool{false, true} {
					for _, ord := range overlapOrders(n) {
						overlapRun(overlapCase{Kind: k, N: n, Order: ord, Tx: tx}, res)
					}
				}
			}
		}
		fmt.Println(res.Classes, res.Notes)
		for _, v := range res.Viol {
			fmt.Println("VIOL", v.Fingerprint, "|", v.What)
		}
	case "trace":
		// debug: h trace '<famJob json>' prints every step's observation
		var j famJob
		if err := json.Unmarshal([]byte(os.Args[2]), &j); err != nil {
			fmt.Fprintln(os.Stderr, err)
			os.Exit(2)
		}
		res := &WRes{}
		f := NewFam(j.Spec, res)
		for _, op := range j.Hist {
			cls := f.Apply(op)
			f.Sweep(op)
			fmt.Println(op.String(), "=>", cls, "|", f.lastObs)
			for _, t := range f.M.Toks {
				act, _ := f.W.Active(t.Val)
				fmt.Printf("    %s g%d gen%d %s active=%v\n", t.Name, t.Grant, t.Gen, t.Status, act)
			}
		}
		for _, v := range res.Viol {
			fmt.Println("VIOL", v.Fingerprint, v.What)
		}
		for _, c := range f.W.Store.Log {
			_ = c
		}
	case "replay":
		b, err := os.ReadFile(os.Args[2])
		if err != nil {
			fmt.Fprintln(os.Stderr, err)
			os.Exit(2)
		}
		var art struct {
			Property    string          `json:"property"`
			Fingerprint string          `json:"fingerprint"`
			Engine      string          `json:"engine"`
			Case        json.RawMessage `json:"case"`
		}
		if err := json.Unmarshal(b, &art); err != nil {
			fmt.Fprintln(os.Stderr, err)
			os.Exit(2)
		}
		fn := replayFns[art.Engine]
		if fn == nil {
			fmt.Fprintln(os.Stderr, "unknown engine", art.Engine)
			os.Exit(2)
		}
		vs, err := fn(art.Case)
		if err != nil {
			fmt.Fprintln(os.Stderr, err)
			os.Exit(2)
		}
		hit := false
		for _, v := range vs {
			ob, _ := json.Marshal(v.Observed)
			fmt.Printf("reproduced: [%s] %s\n  expected: %s\n  observed: %s\n", v.Fingerprint, v.What, v.Expected, ob)
			if v.Fingerprint == art.Fingerprint {
				hit = true
			}
		}
		if hit {
			fmt.Printf("VIOLATION property=%s replay=%s\n", art.Property, os.Args[2])
			os.Exit(1)
		}
		fmt.Println("not reproduced on this tree")
	default:
		fmt.Fprintln(os.Stderr, "unknown command", os.Args[1])
		os.Exit(2)
	}
}
