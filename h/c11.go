package main

import (
	"encoding/json"
	"fmt"
	"net/netip"
	"net/url"
	"regexp"
	"sort"
	"strings"
	"time"

	"github.com/ory/fosite"
)

// C11 — the authorization endpoint never redirects to an unregistered URI.

// ---- reference URI handling (RFC 3986 appendix B), independent of net/url

var rfc3986 = regexp.MustCompile(`^(([^:/?#]+):)?(//([^/?#]*))?([^?#]*)(\?([^#]*))?(#(.*))?$`)

type refURI struct {
	scheme, authority, userinfo, host, port, path, query, fragment string
	hasAuthority, hasQuery, hasFragment                            bool
	ok                                                             bool
}

func refParse(s string) refURI {
	m := rfc3986.FindStringSubmatch(s)
	if m == nil {
		return refURI{}
	}
	u := refURI{scheme: m[2], authority: m[4], path: m[5], query: m[7], fragment: m[9], hasAuthority: m[3] != "", hasQuery: m[6] != "", hasFragment: m[8] != "", ok: true}
	a := u.authority
	if i := strings.LastIndex(a, "@"); i >= 0 {
		u.userinfo, a = a[:i], a[i+1:]
	}
	if strings.HasPrefix(a, "[") {
		if j := strings.Index(a, "]"); j >= 0 {
			u.host = a[1:j]
			rest := a[j+1:]
			if strings.HasPrefix(rest, ":") {
				u.port = rest[1:]
			} else if rest != "" {
				u.ok = false
			}
		} else {
			u.ok = false
		}
	} else if i := strings.LastIndex(a, ":"); i >= 0 {
		u.host, u.port = a[:i], a[i+1:]
	} else {
		u.host = a
	}
	return u
}

var dottedQuad = regexp.MustCompile(`^(\d{1,3})\.(\d{1,3})\.(\d{1,3})\.(\d{1,3})$`)

// refLoopbackLiteral: a loopback IP literal in canonical spelling (dotted quad in 127/8, or an IPv6 literal equal to ::1)
func refLoopbackLiteral(host string) bool {
	if m := dottedQuad.FindStringSubmatch(host); m != nil {
		for _, p := range m[1:] {
			if len(p) > 1 && p[0] == '0' {
				return false
			}
			var n int
			fmt.Sscan(p, &n)
			if n > 255 {
				return false
			}
		}
		return m[1] == "127"
	}
	if strings.Contains(host, ":") {
		if a, err := netip.ParseAddr(host); err == nil && a.Is6() && !a.Is4In6() && a.IsLoopback() {
			return true
		}
	}
	return false
}

func sortedQuery(q string) string {
	// multiset of decoded pairs, order-insensitive (the writer re-encodes the query)
	v, err := url.ParseQuery(q)
	if err != nil {
		return "!" + q
	}
	var parts []string
	for k, vs := range v {
		for _, x := range vs {
			parts = append(parts, k+"="+x)
		}
	}
	sort.Strings(parts)
	return strings.Join(parts, "&")
}

// refQualifies: does target t qualify against the registered set? ("identical" modulo query re-encoding
// and scheme case; or http + loopback literal + same host/path/query as a registered URI, any port)
func refQualifies(t string, registered []string) (bool, string) {
	tu := refParse(t)
	if !tu.ok || tu.scheme == "" {
		return false, "not absolute"
	}
	if tu.hasFragment {
		return false, "has a fragment"
	}
	for _, r := range registered {
		if r == t {
			return true, "identical"
		}
		ru := refParse(r)
		if !ru.ok {
			continue
		}
		if strings.EqualFold(ru.scheme, tu.scheme) && ru.authority == tu.authority && ru.path == tu.path && sortedQuery(ru.query) == sortedQuery(tu.query) && ru.hasAuthority == tu.hasAuthority {
			return true, "identical modulo query encoding"
		}
		if strings.EqualFold(tu.scheme, "http") && refLoopbackLiteral(tu.host) && ru.host == tu.host && sortedQuery(ru.query) == sortedQuery(tu.query) && ru.hasAuthority && tu.hasAuthority {
			if ru.path == tu.path {
				return true, "loopback, any port"
			}
			// same path after percent-decoding: RFC 3986 calls these equivalent; whether "path equal" means the
			// raw or the decoded path is not pinned by the statement
			if dp, err := url.PathUnescape(tu.path); err == nil {
				if rp, err := url.PathUnescape(ru.path); err == nil && dp == rp {
					return true, "dontcare: loopback, path equal after percent-decoding"
				}
			}
		}
	}
	return false, "no registered URI matches"
}

var c11ResponseKeys = map[string]bool{"code": true, "state": true, "scope": true, "error": true, "error_description": true, "error_hint": true, "error_debug": true, "access_token": true, "token_type": true, "expires_in": true, "id_token": true}

// targetBase strips the response parameters the endpoint appended (query or fragment) from a Location value.
func targetBase(loc string) string {
	u := refParse(loc)
	if !u.ok {
		return loc
	}
	// response parameters in the fragment?
	if u.hasFragment {
		if fv, err := url.ParseQuery(u.fragment); err == nil {
			onlyResp := len(fv) > 0
			for k := range fv {
				if !c11ResponseKeys[k] {
					onlyResp = false
				}
			}
			if onlyResp {
				u.hasFragment, u.fragment = false, ""
			}
		}
	}
	q := u.query
	if u.hasQuery {
		if qv, err := url.ParseQuery(u.query); err == nil {
			var keep []string
			for _, part := range strings.Split(u.query, "&") {
				k := part
				if i := strings.Index(part, "="); i >= 0 {
					k = part[:i]
				}
				if dk, err := url.QueryUnescape(k); err == nil && c11ResponseKeys[dk] {
					continue
				}
				if part != "" {
					keep = append(keep, part)
				}
			}
			_ = qv
			q = strings.Join(keep, "&")
		}
	}
	s := ""
	if u.scheme != "" {
		s = u.scheme + ":"
	}
	if u.hasAuthority {
		s += "//" + u.authority
	}
	s += u.path
	if q != "" {
		s += "?" + q
	}
	if u.hasFragment {
		s += "#" + u.fragment
	}
	return s
}

// ---- mutation grammar

type c11Mut struct {
	Name string
	F    func(r string) string
}

func c11ReplaceHost(r, host string) string {
	u := refParse(r)
	a := host
	if u.port != "" {
		a += ":" + u.port
	}
	if u.userinfo != "" {
		a = u.userinfo + "@" + a
	}
	return u.scheme + "://" + a + u.path + c11q(u)
}
func c11q(u refURI) string {
	s := ""
	if u.hasQuery {
		s += "?" + u.query
	}
	if u.hasFragment {
		s += "#" + u.fragment
	}
	return s
}
func c11SetPort(r, port string) string {
	u := refParse(r)
	h := u.host
	if strings.Contains(h, ":") {
		h = "[" + h + "]"
	}
	a := h
	if port != "" {
		a += ":" + port
	}
	if u.userinfo != "" {
		a = u.userinfo + "@" + a
	}
	return u.scheme + "://" + a + u.path + c11q(u)
}
func c11SetScheme(r, scheme string) string {
	u := refParse(r)
	return scheme + strings.TrimPrefix(r, u.scheme)
}
func c11SetPath(r string, f func(string) string) string {
	u := refParse(r)
	s := u.scheme + ":"
	if u.hasAuthority {
		s += "//" + u.authority
	}
	return s + f(u.path) + c11q(u)
}

var c11Muts = []c11Mut{
	{"identity", func(r string) string { return r }},
	{"scheme-upper", func(r string) string { return c11SetScheme(r, strings.ToUpper(refParse(r).scheme)) }},
	{"scheme-https", func(r string) string { return c11SetScheme(r, "https") }},
	{"scheme-http", func(r string) string { return c11SetScheme(r, "http") }},
	{"scheme-custom", func(r string) string { return c11SetScheme(r, "com.evil.app") }},
	{"scheme-javascript", func(r string) string { return c11SetScheme(r, "javascript") }},
	{"host-upper", func(r string) string { return c11ReplaceHost(r, strings.ToUpper(refParse(r).host)) }},
	{"host-evil", func(r string) string { return c11ReplaceHost(r, "evil.example") }},
	{"host-suffix-evil", func(r string) string { return c11ReplaceHost(r, refParse(r).host+".evil.example") }},
	{"host-prefix-evil", func(r string) string { return c11ReplaceHost(r, "evil."+refParse(r).host) }},
	{"host-127.0.0.2", func(r string) string { return c11ReplaceHost(r, "127.0.0.2") }},
	{"host-127.0.0.1", func(r string) string { return c11ReplaceHost(r, "127.0.0.1") }},
	{"host-[::1]", func(r string) string { return c11ReplaceHost(r, "[::1]") }},
	{"host-localhost", func(r string) string { return c11ReplaceHost(r, "localhost") }},
	{"host-decimal-ip", func(r string) string { return c11ReplaceHost(r, "2130706433") }},
	{"host-hex-ip", func(r string) string { return c11ReplaceHost(r, "0x7f.0.0.1") }},
	{"host-short-ip", func(r string) string { return c11ReplaceHost(r, "127.1") }},
	{"host-octal-ip", func(r string) string { return c11ReplaceHost(r, "0177.0.0.1") }},
	{"host-mapped-v6", func(r string) string { return c11ReplaceHost(r, "[::ffff:127.0.0.1]") }},
	{"host-long-v6", func(r string) string { return c11ReplaceHost(r, "[0:0:0:0:0:0:0:1]") }},
	{"host-trailing-dot", func(r string) string { return c11ReplaceHost(r, refParse(r).host+".") }},
	{"port-add", func(r string) string { return c11SetPort(r, "8081") }},
	{"port-other", func(r string) string { return c11SetPort(r, "9") }},
	{"port-remove", func(r string) string { return c11SetPort(r, "") }},
	{"port-empty", func(r string) string { u := refParse(r); return strings.Replace(r, u.authority, u.authority+":", 1) }},
	{"port-80", func(r string) string { return c11SetPort(r, "80") }},
	{"userinfo-evil-at-reg", func(r string) string {
		u := refParse(r)
		return strings.Replace(r, "//"+u.authority, "//evil.example@"+u.authority, 1)
	}},
	{"userinfo-reg-at-evil", func(r string) string {
		u := refParse(r)
		return strings.Replace(r, "//"+u.authority, "//"+u.authority+"@evil.example", 1)
	}},
	{"userinfo-reg-colon-at-evil", func(r string) string {
		u := refParse(r)
		return strings.Replace(r, "//"+u.authority, "//"+u.host+":x@evil.example", 1)
	}},
	{"path-upper", func(r string) string { return c11SetPath(r, strings.ToUpper) }},
	{"path-suffix", func(r string) string { return c11SetPath(r, func(p string) string { return p + "/x" }) }},
	{"path-append-chars", func(r string) string { return c11SetPath(r, func(p string) string { return p + "x" }) }},
	{"path-trailing-slash", func(r string) string { return c11SetPath(r, func(p string) string { return p + "/" }) }},
	{"path-dotdot", func(r string) string { return c11SetPath(r, func(p string) string { return "/x/.." + p }) }},
	{"path-dot", func(r string) string { return c11SetPath(r, func(p string) string { return "/." + p }) }},
	{"path-double-slash", func(r string) string { return c11SetPath(r, func(p string) string { return "/" + p }) }},
	{"path-pct-encoded", func(r string) string {
		return c11SetPath(r, func(p string) string { return strings.Replace(p, "c", "%63", 1) })
	}},
	{"path-pct-slash", func(r string) string {
		return c11SetPath(r, func(p string) string { return strings.Replace(p, "/", "%2F", 1) })
	}},
	{"path-empty", func(r string) string { return c11SetPath(r, func(p string) string { return "" }) }},
	{"path-semicolon", func(r string) string { return c11SetPath(r, func(p string) string { return p + ";x" }) }},
	{"query-add", func(r string) string {
		if strings.Contains(r, "?") {
			return r + "&y=2"
		}
		return r + "?y=2"
	}},
	{"query-drop", func(r string) string {
		u := refParse(r)
		u.hasQuery = false
		return c11SetPath(r, func(p string) string { return p })[:len(u.scheme)+1+len(map[bool]string{true: "//" + u.authority, false: ""}[u.hasAuthority])+len(u.path)]
	}},
	{"query-reorder", func(r string) string {
		u := refParse(r)
		if !u.hasQuery {
			return r
		}
		parts := strings.Split(u.query, "&")
		for i, j := 0, len(parts)-1; i < j; i, j = i+1, j-1 {
			parts[i], parts[j] = parts[j], parts[i]
		}
		return strings.Replace(r, "?"+u.query, "?"+strings.Join(parts, "&"), 1)
	}},
	{"query-empty-marker", func(r string) string {
		if strings.Contains(r, "?") {
			return r
		}
		return r + "?"
	}},
	{"fragment-add", func(r string) string { return r + "#frag" }},
	{"fragment-empty", func(r string) string { return r + "#" }},
	{"backslash", func(r string) string {
		u := refParse(r)
		return strings.Replace(r, "//"+u.authority, "//"+u.authority+"\\@evil.example", 1)
	}},
	{"backslash-slashes", func(r string) string { return strings.Replace(r, "://", ":\\\\", 1) }},
	{"space-leading", func(r string) string { return " " + r }},
	{"space-trailing", func(r string) string { return r + " " }},
	{"tab-inside", func(r string) string { return strings.Replace(r, "://", ":\t//", 1) }},
	{"newline-trailing", func(r string) string { return r + "\n" }},
	{"nul-trailing", func(r string) string { return r + "\x00" }},
	{"relative-path", func(r string) string { return refParse(r).path }},
	{"scheme-relative", func(r string) string { u := refParse(r); return "//" + u.authority + u.path + c11q(u) }},
	{"opaque", func(r string) string { u := refParse(r); return u.scheme + ":" + u.authority + u.path }},
	{"empty", func(r string) string { return "" }},
	{"doubled", func(r string) string { return r + r }},
	{"unicode-host", func(r string) string { return c11ReplaceHost(r, "аpp.example") }}, // cyrillic a
}

var c11Sets = map[string][]string{
	"https-single":                 {"https://app.example/cb"},
	"https-several":                {"https://app.example/cb", "https://app.example/cb2"},
	"loopback-v4":                  {"http://127.0.0.1/cb"},
	"loopback-v4-pq":               {"http://127.0.0.1:8080/cb?x=1"},
	"loopback-v6":                  {"http://[::1]/cb"},
	"localhost-name":               {"http://localhost/cb"},
	"custom-scheme":                {"com.example.app://cb/path"},
	"with-userinfo":                {"https://user@app.example/cb"},
	"plain-http":                   {"http://app.example/cb"},
	"with-query":                   {"https://app.example/cb?foo=bar&a=b"},
	"loopback+https":               {"https://app.example/cb", "http://127.0.0.1/cb"},
	"http-localhost-lookalike":     {"http://localhost.files-cdn.example/cb"},
	"http-sub-localhost-lookalike": {"http://app.localhost.x.example:8080/cb"},
	"http-dot-localhost":           {"http://app.localhost/cb"},
	"with-repeated-query-key":      {"https://app.example/cb?aud=web&aud=api"},
	"escaped-slash-in-path":        {"https://app.example/cb/tenant%2Fprod"},
	// a client registered without any redirect URI (e.g. for client_credentials only): nothing qualifies
	"none-registered": {},
}

type c11Case struct {
	Set       string   `json:"set"`
	Muts      []string `json:"mutations"`
	Mode      string   `json:"mode"`  // code | code-query | code-fragment | code-form_post | token | idtoken-form_post
	Error     string   `json:"error"` // none | scope | state | response_type | prompt | denied | unknown-client
	PAR       bool     `json:"par,omitempty"`
	Requested string   `json:"requested,omitempty"`
}

var c11Modes = []string{"code", "code-query", "code-fragment", "code-form_post", "token", "token-form_post"}
var c11Errors = []string{"none", "scope", "state", "response_type", "denied", "unknown-client", "response_mode"}

func c11MutByName(n string) c11Mut {
	for _, m := range c11Muts {
		if m.Name == n {
			return m
		}
	}
	panic("mutation " + n)
}

func c11Run(c c11Case, res *WRes) {
	reg := c11Sets[c.Set]
	requested := "https://app.example/cb"
	if len(reg) > 0 {
		requested = reg[0]
	}
	for _, mn := range c.Muts {
		requested = func() (out string) {
			defer func() {
				if recover() != nil {
					out = requested
				}
			}()
			return c11MutByName(mn).F(requested)
		}()
	}
	c.Requested = requested
	w := NewWorld(Profile{})
	base := w.AddClient("R", "secret-R", false)
	base.RedirectURIs = reg
	base.ResponseTypes = []string{"code", "token", "id_token", "code token"}
	w.Mem.Clients["R"] = &fosite.DefaultResponseModeClient{DefaultClient: base, ResponseModes: []fosite.ResponseModeType{fosite.ResponseModeQuery, fosite.ResponseModeFragment, fosite.ResponseModeFormPost}}
	viol := func(fp, what, exp string, obs any) {
		res.violate(Violation{Property: "C11", Fingerprint: fp, What: what, Engine: "c11", Case: c, Expected: exp, Observed: obs})
	}
	p := url.Values{"client_id": {"R"}, "state": {"state-12345678"}, "scope": {"a"}}
	if len(c.Muts) == 1 && c.Muts[0] == "empty" {
		// redirect_uri omitted altogether
	} else {
		p.Set("redirect_uri", requested)
	}
	rt := "code"
	if strings.HasPrefix(c.Mode, "token") {
		rt = "token"
	}
	p.Set("response_type", rt)
	if i := strings.Index(c.Mode, "-"); i >= 0 {
		p.Set("response_mode", c.Mode[i+1:])
	}
	opts := AuthzOpts{}
	switch c.Error {
	case "scope":
		p.Set("scope", "not-registered")
	case "state":
		p.Set("state", "x")
	case "response_type":
		p.Set("response_type", "id_token token")
	case "denied":
		opts.Deny = true
	case "unknown-client":
		p.Set("client_id", "nobody")
	case "response_mode":
		p.Set("response_mode", "unheard_of")
	}
	var o *Obs
	if c.PAR {
		po := w.PAR(p, w.AuthFor("R"))
		res.Trans++
		if ru := po.Str("request_uri"); ru != "" {
			q := url.Values{"client_id": {"R"}, "request_uri": {ru}}
			if p.Get("redirect_uri") == "" {
				// nothing was pushed as redirect_uri: one appended to the front-channel leg was never validated and
				// must not become the target
				q.Set("redirect_uri", "https://attacker.example.net/collect")
			}
			o = w.Authorize(q, opts)
		} else {
			res.class("par-refused:" + po.Class())
			if ok, _ := refQualifies(requested, reg); ok && c.Error == "none" && !(strings.HasPrefix(strings.ToLower(requested), "http:") && c.Set == "plain-http") {
				res.note("sanity:par-refused-qualifying-uri:" + c.Set + "/" + strings.Join(c.Muts, "+") + "/" + c.Mode + ":" + po.GoErr)
			}
			return
		}
	} else {
		o = w.Authorize(p, opts)
	}
	res.Trans++
	target := ""
	where := ""
	if o.Location != "" {
		target, where = targetBase(o.Location), "Location"
	} else if o.FormAct != "" || o.FormPost != nil {
		target, where = o.FormAct, "form action"
	}
	mutName := strings.Join(c.Muts, "+")
	if target == "" {
		res.class("direct:" + o.Class())
		if ok, _ := refQualifies(requested, reg); ok && c.Error == "none" && p.Get("redirect_uri") != "" {
			if !(refParse(requested).scheme == "http" && !refLoopbackLiteral(refParse(requested).host) && rt == "code") {
				res.note("sanity:qualifying-uri-not-redirected:" + c.Set + "/" + mutName)
			}
		}
		// rendered directly: must be an error document, not a success
		if o.Err == "" && o.Status < 400 {
			viol("C11/no-redirect-but-no-error/"+c.Set, "the endpoint neither redirected nor rendered an error", "error JSON", o.Body)
		}
		return
	}
	res.class("redirect:" + o.Class())
	res.distinct(c.Set + "|" + requested + "|" + c.Mode + "|" + c.Error)
	ok, why := refQualifies(target, reg)
	if strings.HasPrefix(why, "dontcare") {
		res.DontCare++
	}
	if !ok && target == "#ZgotmplZ" {
		// html/template replaced the form action because the registered redirect URI has a scheme it does not trust
		viol("C11/form_post-action-neutralised-for-non-http-scheme/set="+c.Set, fmt.Sprintf("response_mode=form_post with the registered redirect URI %q: the form action written is %q, so the user agent posts the authorization response to the authorization endpoint's own URL instead of the registered target", requested, target), "form action = registered URI", o.FormAct)
		return
	}
	if !ok {
		kind := "success"
		if o.Err != "" {
			kind = "error"
		}
		viol(fmt.Sprintf("C11/redirect-to-unregistered-target/%s/set=%s/mutation=%s", kind, c.Set, mutName),
			fmt.Sprintf("the authorization endpoint sent a %s response via %s to %q (requested redirect_uri %q), which %s; registered: %v", kind, where, target, requested, why, reg), "error rendered directly, no redirect", o.Location+o.FormAct)
		return
	}
	if p.Get("redirect_uri") == "" && len(reg) > 1 {
		viol("C11/redirect-with-missing-redirect_uri-and-several-registered/"+c.Set, "redirect_uri was omitted while several URIs are registered, and the endpoint still redirected to "+target, "error rendered directly", target)
	}
	// plain http only on loopback / localhost for the code flow and PAR
	tu := refParse(target)
	if strings.EqualFold(tu.scheme, "http") && (o.Param("code") != "" || (c.PAR && (o.Param("access_token") != "" || o.Param("id_token") != ""))) {
		h := strings.ToLower(tu.host)
		if !(refLoopbackLiteral(tu.host) || h == "localhost" || strings.HasSuffix(h, ".localhost")) {
			what := "an authorization code was sent"
			fp := "C11/code-delivered-over-plain-http/" + c.Set
			if o.Param("code") == "" {
				what, fp = "a pushed authorization request was accepted and its tokens were sent", "C11/pushed-request-accepted-for-plain-http-target/"+c.Set+"/mode="+c.Mode
			}
			viol(fp, what+" to a plain-http target that is neither loopback nor localhost: "+target, "refusal", o.Location)
		}
	}
	// tokens / codes must not appear in a second place
	if o.Err == "" && c.Error != "none" && c.Error != "state" {
		_ = why
	}
}

// c11ForeignPush: client M pushes a request of its own (redirect URI registered for M only); the front channel then
// presents that request_uri under the client_id of client R. Whatever code or token the endpoint hands out, the
// target must be a redirect URI registered for the client the code or token belongs to.
type c11ForeignCase struct {
	Mode string `json:"mode"`
}

func c11ForeignRun(c c11ForeignCase, res *WRes) {
	w := NewWorld(Profile{})
	for id, uri := range map[string]string{"R": "https://app.example/cb", "M": "https://mallory.example/collect"} {
		base := w.AddClient(id, "secret-"+id, false)
		base.RedirectURIs = []string{uri}
		base.ResponseTypes = []string{"code", "token", "id_token", "code token"}
		w.Mem.Clients[id] = &fosite.DefaultResponseModeClient{DefaultClient: base, ResponseModes: []fosite.ResponseModeType{fosite.ResponseModeQuery, fosite.ResponseModeFragment, fosite.ResponseModeFormPost}}
	}
	p := url.Values{"client_id": {"M"}, "state": {"state-12345678"}, "scope": {"a"}, "redirect_uri": {"https://mallory.example/collect"}}
	rt := "code"
	if strings.HasPrefix(c.Mode, "token") {
		rt = "token"
	}
	p.Set("response_type", rt)
	if i := strings.Index(c.Mode, "-"); i >= 0 {
		p.Set("response_mode", c.Mode[i+1:])
	}
	po := w.PAR(p, w.AuthFor("M"))
	res.Trans++
	ru := po.Str("request_uri")
	if ru == "" {
		res.note("sanity:foreign-push-refused:" + c.Mode + ":" + po.Class())
		return
	}
	o := w.Authorize(url.Values{"client_id": {"R"}, "request_uri": {ru}}, AuthzOpts{})
	res.Trans++
	res.distinct("foreign-push|" + c.Mode)
	target := ""
	if o.Location != "" {
		target = targetBase(o.Location)
	} else if o.FormAct != "" || o.FormPost != nil {
		target = o.FormAct
	}
	delivered := o.Param("code") != "" || o.Param("access_token") != "" || o.Param("id_token") != ""
	res.class(fmt.Sprintf("foreign-push:%s:delivered=%v", c.Mode, delivered))
	if !delivered || target == "" {
		return
	}
	owners := map[string]bool{}
	for _, rel := range w.Mem.AuthorizeCodes {
		owners[rel.GetClient().GetID()] = true
	}
	for _, rq := range w.Mem.AccessTokens {
		owners[rq.GetClient().GetID()] = true
	}
	for id := range owners {
		cl, _ := w.Mem.Clients[id]
		if cl == nil {
			continue
		}
		if ok, why := refQualifies(target, cl.GetRedirectURIs()); !ok {
			res.violate(Violation{Property: "C11", Fingerprint: "C11/redirect-to-unregistered-target/success/foreign-pushed-request/mode=" + c.Mode,
				What: fmt.Sprintf("client M pushed a request, the front channel named client %s next to M's request_uri: a code/token belonging to %s was sent to %q, which %s; registered for %s: %v", id, id, target, why, id, cl.GetRedirectURIs()), Engine: "c11foreign", Case: c, Expected: "refusal", Observed: o.Location + o.FormAct})
		}
	}
}

func c11ForeignPush(r *Run) {
	res := &WRes{}
	for _, m := range c11Modes {
		c11ForeignRun(c11ForeignCase{Mode: m}, res)
		res.Evals++
	}
	r.Merge(res)
}

type c11Job struct {
	Set   string
	First string // first mutation (shard); "" => depth-1 only
	Depth int
	PAR   bool
}

func init() {
	registerWorker("c11", func(arg json.RawMessage) (any, error) {
		var j c11Job
		if err := json.Unmarshal(arg, &j); err != nil {
			return nil, err
		}
		res := &WRes{}
		var mutSeqs [][]string
		if j.Depth <= 1 {
			mutSeqs = append(mutSeqs, []string{j.First})
		} else if j.Depth == 2 {
			for _, m2 := range c11Muts {
				mutSeqs = append(mutSeqs, []string{j.First, m2.Name})
			}
		} else {
			for _, m2 := range c11Muts {
				for _, m3 := range c11Muts {
					mutSeqs = append(mutSeqs, []string{j.First, m2.Name, m3.Name})
				}
			}
		}
		modes, errs := c11Modes, c11Errors
		if j.Depth >= 3 {
			modes, errs = []string{"code", "code-form_post"}, []string{"none", "scope"}
		}
		if j.PAR {
			modes, errs = []string{"code", "code-form_post", "token", "token-form_post"}, []string{"none", "scope"}
		}
		for _, ms := range mutSeqs {
			for _, mode := range modes {
				for _, e := range errs {
					c := c11Case{Set: j.Set, Muts: ms, Mode: mode, Error: e, PAR: j.PAR}
					n := len(res.Viol)
					c11Run(c, res)
					res.Evals++
					if len(res.Viol) == n {
						res.sample(c)
					}
				}
			}
		}
		return res, nil
	})
	replayFns["c11"] = func(raw json.RawMessage) ([]Violation, error) {
		var c c11Case
		if err := json.Unmarshal(raw, &c); err != nil {
			return nil, err
		}
		res := &WRes{}
		c11Run(c, res)
		return res.Viol, nil
	}
	replayFns["c11foreign"] = func(raw json.RawMessage) ([]Violation, error) {
		var c c11ForeignCase
		if err := json.Unmarshal(raw, &c); err != nil {
			return nil, err
		}
		res := &WRes{}
		c11ForeignRun(c, res)
		return res.Viol, nil
	}
	registerCheck("C11", "exploration", 120*time.Second, 25*time.Minute, func(r *Run) {
		depth := 2
		if !r.Quick() {
			depth = 3
		}
		var jobs []any
		var sets []string
		for s := range c11Sets {
			sets = append(sets, s)
		}
		sort.Strings(sets)
		for _, s := range sets {
			for _, m := range c11Muts {
				jobs = append(jobs, c11Job{Set: s, First: m.Name, Depth: 1})
				jobs = append(jobs, c11Job{Set: s, First: m.Name, Depth: 1, PAR: true})
				jobs = append(jobs, c11Job{Set: s, First: m.Name, Depth: 2})
				if depth == 3 {
					jobs = append(jobs, c11Job{Set: s, First: m.Name, Depth: 3})
				}
			}
		}
		var mn []string
		for _, m := range c11Muts {
			mn = append(mn, m.Name)
		}
		r.Bounds = map[string]any{"registered_sets": c11Sets, "mutations": mn, "mutation_depth": depth, "modes": c11Modes, "error_timings": c11Errors, "foreign_pushed_request": "client M pushes, the front channel names client R: every mode", "par": "depth-1 mutations x {code, code+form_post, token, token+form_post} x {none, scope error}; when no redirect_uri is pushed an unregistered one is appended to the request_uri leg", "depth_3": "thorough only, x {code, code+form_post} x {none, scope error}"}
		r.Rule = "every composition of <= depth mutations applied to the first registered URI of every registered set, under every response type/mode and every error timing, is sent to the real authorization endpoint (and through the PAR endpoint); the bytes written (Location header / form action) are parsed with an independent RFC 3986 splitter and must qualify against the registered set; distinct = distinct (set, requested string, mode, error) that produced a redirect"
		r.Assumptions = []string{"a query string that is a permutation/re-encoding of the registered one counts as identical (the writer re-encodes the query); scheme case is ignored", "targets the reference splitter cannot parse never qualify"}
		res := r.Pool.Do("c11", jobs, r.Deadline)
		if !r.MergeJobs(res) {
			r.Exhaustive = false
		}
		c11ForeignPush(r)
		if r.Agg.Classes["redirect:ok"] == 0 {
			r.HarnessErrs = append(r.HarnessErrs, "vacuous: no successful redirect observed")
		}
	})
}
