package main

import (
	"encoding/base64"
	"encoding/json"
	"fmt"
	"net/url"
	"strings"
	"time"

	"github.com/ory/fosite"
	"github.com/ory/fosite/storage"
)

// C10 — client authentication guards every client-authenticated endpoint.

type c10Case struct {
	Reg       string `json:"registration"`
	Transport string `json:"transport"`
	Secret    string `json:"secret"`
	Endpoint  string `json:"endpoint"`
	SkipAuth  bool   `json:"jwt_bearer_can_skip_client_auth"`
	// OtherJWTBearerSwitches: the other JWT-bearer switches (jti optional, iat optional) are on while "can skip client
	// authentication" is off: only that one switch may let a request through without client authentication
	OtherJWTBearerSwitches bool `json:"other_jwt_bearer_switches_on,omitempty"`
}

var (
	c10Regs       = []string{"plain", "plain+1rotated", "plain+2rotated", "plain+empty-rotated", "public", "public-with-secret-hash", "confidential-empty-hash", "oidc-basic", "oidc-post", "oidc-none", "oidc-private_key_jwt", "oidc-client_secret_jwt", "oidc-unset", "special-chars"}
	c10Transports = []string{"basic", "post", "both", "id-only", "nothing", "basic-malformed", "basic-unencoded", "assertion", "assertion-wrong-key", "assertion+basic", "basic-id-only+body-secret", "assertion-expired", "assertion-not-yet-valid", "query-credentials", "other-client-basic+query-client_id", "assertion-aud-prefix"}
	c10Secrets    = []string{"current", "rotated1", "rotated2", "wrong", "empty", "other-clients", "current-prefix", "current+suffix"}
	c10Endpoints  = []string{"token/client_credentials", "token/password", "token/refresh_token", "token/authorization_code", "token/device_code", "token/jwt-bearer", "revoke", "par", "device_auth"}
)

const c10ID = "X"

func c10Setup(c c10Case) (*World, fosite.Client, map[string]string) {
	w := NewWorld(Profile{Bcrypt: true, JWTBearerSkipAuth: c.SkipAuth, JTIOptional: c.OtherJWTBearerSwitches, IATOptional: c.OtherJWTBearerSwitches})
	id := c10ID
	if c.Reg == "special-chars" {
		id = "enc:client/+ %"
	}
	secrets := map[string]string{"current": "s3cret-current", "rotated1": "s3cret-rotated-1", "rotated2": "s3cret-rotated-2"}
	if c.Reg == "special-chars" {
		secrets["current"] = "p&ss w%rd+:/="
	}
	base := w.AddClient(id, secrets["current"], false)
	base.RedirectURIs = []string{"https://x.example/cb"}
	switch c.Reg {
	case "plain+1rotated":
		base.RotatedSecrets = [][]byte{w.hashSecret(secrets["rotated1"])}
	case "plain+2rotated":
		base.RotatedSecrets = [][]byte{w.hashSecret(secrets["rotated1"]), w.hashSecret(secrets["rotated2"])}
	case "plain+empty-rotated":
		// a rotated-secrets list holding only empty slots (as a careless admin API may leave behind)
		base.RotatedSecrets = [][]byte{{}, nil}
	case "public":
		base.Public, base.Secret = true, nil
	case "public-with-secret-hash":
		base.Public = true
	case "confidential-empty-hash":
		base.Secret = []byte{}
	}
	var cl fosite.Client = base
	if strings.HasPrefix(c.Reg, "oidc-") {
		method := strings.TrimPrefix(c.Reg, "oidc-")
		oc := &fosite.DefaultOpenIDConnectClient{DefaultClient: base, TokenEndpointAuthSigningAlgorithm: "ES256"}
		switch method {
		case "basic":
			oc.TokenEndpointAuthMethod = "client_secret_basic"
		case "post":
			oc.TokenEndpointAuthMethod = "client_secret_post"
		case "none":
			oc.TokenEndpointAuthMethod = "none"
			base.Public = true
		case "private_key_jwt":
			oc.TokenEndpointAuthMethod = "private_key_jwt"
		case "client_secret_jwt":
			oc.TokenEndpointAuthMethod = "client_secret_jwt"
		case "unset":
		}
		oc.JSONWebKeys = jwks(pubJWK(ecKey("ec256b"), "ck-1", "ES256"))
		cl = oc
		w.Mem.Clients[id] = oc
	}
	// another confidential client whose secret may be borrowed
	w.AddClient("O", "s3cret-of-other", false)
	secrets["other-clients"] = "s3cret-of-other"
	secrets["wrong"] = "definitely-wrong"
	secrets["empty"] = ""
	secrets["current-prefix"] = secrets["current"][:len(secrets["current"])-1]
	secrets["current+suffix"] = secrets["current"] + "x"
	k := pubJWK(ecKey("ec256a"), "bk-1", "ES256")
	w.Mem.IssuerPublicKeys["issuer-1"] = storage.IssuerPublicKeys{Issuer: "issuer-1", KeysBySub: map[string]storage.SubjectPublicKeys{
		"subject-1": {Subject: "subject-1", Keys: map[string]storage.PublicKeyScopes{"bk-1": {Key: &k, Scopes: []string{"a"}}}}}}
	return w, cl, secrets
}

func c10AssertionAt(w *World, id, key, jti string, iat, nbf, exp time.Duration) string {
	now := w.Now()
	claims := map[string]any{"iss": id, "sub": id, "aud": TokenURL, "exp": now.Add(exp).Unix(), "iat": now.Add(iat).Unix(), "jti": jti}
	if nbf != 0 {
		claims["nbf"] = now.Add(nbf).Unix()
	}
	return signJWT(ecKey(key), "ES256", "ck-1", claims, nil)
}

func c10Assertion(w *World, id, key, jti string) string {
	now := w.Now()
	return signJWT(ecKey(key), "ES256", "ck-1", map[string]any{"iss": id, "sub": id, "aud": TokenURL, "exp": now.Add(5 * time.Minute).Unix(), "iat": now.Unix(), "jti": jti}, nil)
}

// the presentation under test
func c10Auth(w *World, c c10Case, id string, secrets map[string]string) Auth {
	sec := secrets[c.Secret]
	switch c.Transport {
	case "basic":
		return BasicAuth(id, sec)
	case "post":
		return Auth{Mode: "post", ID: id, Secret: sec}
	case "both":
		a := BasicAuth(id, sec)
		a.Extra = url.Values{"client_id": {id}, "client_secret": {sec}}
		return a
	case "id-only":
		return Auth{Mode: "none", ID: id}
	case "nothing":
		return Auth{Mode: "omit"}
	case "basic-malformed":
		return Auth{Mode: "raw", ID: "Basic !!!not-base64!!!"}
	case "basic-unencoded":
		return Auth{Mode: "raw", ID: "Basic " + base64.StdEncoding.EncodeToString([]byte(id+":"+sec))}
	case "assertion":
		return Auth{Mode: "omit", Extra: url.Values{"client_assertion_type": {"urn:ietf:params:oauth:client-assertion-type:jwt-bearer"}, "client_assertion": {c10Assertion(w, id, "ec256b", "jti-attempt")}}}
	case "assertion-wrong-key":
		return Auth{Mode: "omit", Extra: url.Values{"client_assertion_type": {"urn:ietf:params:oauth:client-assertion-type:jwt-bearer"}, "client_assertion": {c10Assertion(w, id, "ec256a", "jti-attempt")}}}
	case "assertion-expired":
		// correctly signed with the registered key, but expired a minute ago
		return Auth{Mode: "omit", Extra: url.Values{"client_assertion_type": {"urn:ietf:params:oauth:client-assertion-type:jwt-bearer"}, "client_assertion": {c10AssertionAt(w, id, "ec256b", "jti-attempt", -10*time.Minute, 0, -time.Minute)}}}
	case "assertion-aud-prefix":
		// correctly signed, but addressed to a proper prefix of the token URL (another tenant / the bare host)
		now := w.Now()
		as := signJWT(ecKey("ec256b"), "ES256", "ck-1", map[string]any{"iss": id, "sub": id, "aud": TokenURL[:len(TokenURL)-3], "exp": now.Add(5 * time.Minute).Unix(), "iat": now.Unix(), "jti": "jti-attempt"}, nil)
		return Auth{Mode: "omit", Extra: url.Values{"client_assertion_type": {"urn:ietf:params:oauth:client-assertion-type:jwt-bearer"}, "client_assertion": {as}}}
	case "assertion-not-yet-valid":
		return Auth{Mode: "omit", Extra: url.Values{"client_assertion_type": {"urn:ietf:params:oauth:client-assertion-type:jwt-bearer"}, "client_assertion": {c10AssertionAt(w, id, "ec256b", "jti-attempt", 0, 10*time.Minute, 20*time.Minute)}}}
	case "query-credentials":
		// client_id and client_secret travel in the URL query string of the POST request: neither HTTP Basic nor the body
		return Auth{Mode: "omit", Query: url.Values{"client_id": {id}, "client_secret": {sec}}}
	case "other-client-basic+query-client_id":
		// another confidential client authenticates correctly (HTTP Basic) and names the client under test in the URL
		// query only; the body carries no client_id (pushed-authorization endpoint: whose request is it?)
		a := BasicAuth("O", secrets["other-clients"])
		a.Query = url.Values{"client_id": {id}}
		return a
	case "basic-id-only+body-secret":
		// the id travels in a Basic header with an empty password, the secret in the body, no body client_id
		a := BasicAuth(id, "")
		a.Extra = url.Values{"client_secret": {sec}}
		return a
	case "assertion+basic":
		a := BasicAuth(id, sec)
		a.Extra = url.Values{"client_assertion_type": {"urn:ietf:params:oauth:client-assertion-type:jwt-bearer"}, "client_assertion": {c10Assertion(w, id, "ec256a", "jti-attempt")}}
		return a
	}
	panic(c.Transport)
}

// reference: does this presentation authenticate the registered client?
func c10RefAuth(c c10Case) (ok bool, dc bool) {
	validSecret := c.Secret == "current" || (c.Secret == "rotated1" && (c.Reg == "plain+1rotated" || c.Reg == "plain+2rotated")) || (c.Secret == "rotated2" && c.Reg == "plain+2rotated")
	public := c.Reg == "public" || c.Reg == "public-with-secret-hash" || c.Reg == "oidc-none"
	viaBasic := c.Transport == "basic" || c.Transport == "both" || c.Transport == "basic-unencoded" || c.Transport == "assertion+basic"
	viaPost := c.Transport == "post"
	switch c.Transport {
	case "assertion-expired", "assertion-not-yet-valid", "assertion-aud-prefix":
		return false, false // not a valid assertion, whatever the registration
	case "other-client-basic+query-client_id":
		return false, false // the client under test has shown nothing
	case "query-credentials":
		if c.Reg == "public" || c.Reg == "public-with-secret-hash" || c.Reg == "oidc-none" {
			return false, true // a public client is only identified: where the identifier may travel is not pinned
		}
		return false, false // the URL query is not a transport any authentication method permits
	}
	if c.Transport == "basic-id-only+body-secret" {
		// split credentials. The Basic password is empty, so the header proves nothing. For registrations whose method
		// does not permit a body secret (or no secret at all) processing the request is a violation; where post is a
		// permitted transport the split form is not pinned
		switch c.Reg {
		case "oidc-basic", "oidc-unset", "oidc-private_key_jwt", "oidc-client_secret_jwt", "confidential-empty-hash":
			return false, false
		}
		if c.Secret == "empty" && !(c.Reg == "public" || c.Reg == "public-with-secret-hash") {
			return false, c.Reg == "oidc-none"
		}
		return false, true
	}
	if c.Transport == "basic-unencoded" && c.Reg == "special-chars" {
		return false, true // the header must be form-encoded; what an unencoded special string decodes to is not pinned
	}
	switch {
	case public:
		// identified without a secret; a secret sent along is ignored
		switch c.Transport {
		case "nothing":
			return false, false
		case "basic-malformed":
			return false, true // an unusable header next to a body client_id: ignoring it and refusing are both acceptable for a client that has no secret
		case "assertion", "assertion-wrong-key", "assertion+basic":
			return false, c.Reg != "oidc-none" // plain clients: assertions are an OIDC-client feature
		}
		if c.Reg == "oidc-none" && (c.Transport == "post" || c.Transport == "both" || c.Transport == "basic" || c.Transport == "basic-unencoded") && c.Secret != "empty" {
			return false, true // a secret sent by a method=none client: refusing and ignoring are both defensible
		}
		return true, false
	case c.Reg == "confidential-empty-hash":
		return false, false // nobody can prove knowledge of a secret that does not exist
	case strings.HasPrefix(c.Reg, "oidc-"):
		method := strings.TrimPrefix(c.Reg, "oidc-")
		if method == "unset" {
			method = "basic"
		}
		switch method {
		case "basic":
			if c.Transport == "both" || c.Transport == "assertion+basic" {
				return false, true
			}
			return viaBasic && validSecret, false
		case "post":
			if c.Transport == "both" {
				return false, true
			}
			return viaPost && validSecret, false
		case "private_key_jwt":
			if c.Transport == "assertion+basic" {
				return false, true
			}
			return c.Transport == "assertion", false
		default:
			return false, false
		}
	default: // plain confidential clients accept the secret over basic or post
		if c.Transport == "assertion" || c.Transport == "assertion-wrong-key" || c.Transport == "assertion+basic" {
			return false, false
		}
		return (viaBasic || viaPost) && validSecret, false
	}
}

func c10Run(c c10Case, res *WRes) {
	w, cl, secrets := c10Setup(c)
	id := cl.GetID()
	viol := func(fp, what, exp string, obs any) {
		res.violate(Violation{Property: "C10", Fingerprint: fp, What: what, Engine: "c10", Case: c, Expected: exp, Observed: obs})
	}
	// a legitimate way in, used to mint the prerequisites of the endpoint under test
	var good Auth
	switch {
	case cl.IsPublic():
		good = Auth{Mode: "none", ID: id}
	case c.Reg == "oidc-post":
		good = Auth{Mode: "post", ID: id, Secret: secrets["current"]}
	case c.Reg == "oidc-private_key_jwt":
		good = Auth{Mode: "omit", Extra: url.Values{"client_assertion_type": {"urn:ietf:params:oauth:client-assertion-type:jwt-bearer"}, "client_assertion": {c10Assertion(w, id, "ec256b", "jti-setup")}}}
	default:
		good = BasicAuth(id, secrets["current"])
	}
	form := url.Values{}
	prereqOK := true
	var victim string // a token of this client whose liveness must not change on failed authentication
	switch c.Endpoint {
	case "token/client_credentials":
		form = url.Values{"grant_type": {"client_credentials"}, "scope": {"a"}}
	case "token/password":
		form = url.Values{"grant_type": {"password"}, "username": {"peter"}, "password": {"pw-peter"}, "scope": {"a"}}
	case "token/refresh_token", "revoke", "token/authorization_code":
		ao := w.Authorize(url.Values{"client_id": {id}, "redirect_uri": {"https://x.example/cb"}, "state": {"state-12345678"}, "response_type": {"code"}, "scope": {"offline a"}}, AuthzOpts{})
		code := ao.Param("code")
		if code == "" {
			prereqOK = false
			break
		}
		if c.Endpoint == "token/authorization_code" {
			form = url.Values{"grant_type": {"authorization_code"}, "code": {code}, "redirect_uri": {"https://x.example/cb"}}
			break
		}
		if c.Reg == "oidc-private_key_jwt" {
			good.Extra.Set("client_assertion", c10Assertion(w, id, "ec256b", "jti-setup-2"))
		}
		to := w.Token(url.Values{"grant_type": {"authorization_code"}, "code": {code}, "redirect_uri": {"https://x.example/cb"}}, good)
		if to.Str("refresh_token") == "" {
			prereqOK = false
			break
		}
		victim = to.Str("access_token")
		if c.Endpoint == "revoke" {
			form = url.Values{"token": {to.Str("access_token")}}
		} else {
			form = url.Values{"grant_type": {"refresh_token"}, "refresh_token": {to.Str("refresh_token")}}
		}
	case "token/device_code":
		do := w.DeviceAuth(url.Values{"client_id": {id}, "scope": {"a"}}, good)
		if do.Str("device_code") == "" {
			prereqOK = false
			break
		}
		w.AcceptUserCode(do.Str("user_code"), true)
		form = url.Values{"grant_type": {"urn:ietf:params:oauth:grant-type:device_code"}, "device_code": {do.Str("device_code")}}
	case "token/jwt-bearer":
		now := w.Now()
		as := signJWT(ecKey("ec256a"), "ES256", "bk-1", map[string]any{"iss": "issuer-1", "sub": "subject-1", "aud": []string{TokenURL}, "exp": now.Add(5 * time.Minute).Unix(), "iat": now.Unix(), "jti": "jti-bearer"}, nil)
		form = url.Values{"grant_type": {"urn:ietf:params:oauth:grant-type:jwt-bearer"}, "assertion": {as}, "scope": {"a"}}
	case "par":
		form = url.Values{"redirect_uri": {"https://x.example/cb"}, "state": {"state-12345678"}, "response_type": {"code"}, "scope": {"a"}}
	case "device_auth":
		form = url.Values{"scope": {"a"}}
	}
	if !prereqOK {
		res.note("prerequisite-unavailable:" + c.Reg + "/" + c.Endpoint)
		return
	}
	auth := c10Auth(w, c, id, secrets)
	if (c.Endpoint == "device_auth" || c.Endpoint == "par") && auth.Mode != "post" && auth.Mode != "none" && c.Transport != "nothing" {
		// these endpoints need to know which client the request is for
		if auth.Extra == nil {
			auth.Extra = url.Values{}
		}
		if auth.Extra.Get("client_id") == "" && c.Endpoint == "device_auth" {
			auth.Extra.Set("client_id", id)
		}
	}
	logStart := len(w.Store.Log)
	// grant state: codes, tokens, device and pushed requests. The jti bookkeeping of assertions is not part of it: a
	// correctly signed assertion that is refused for another reason (audience) may have its jti recorded on the way
	grantState := func() string {
		var keep []string
		for _, l := range strings.Split(w.StateKey(), "\n") {
			if l != "" && !strings.HasPrefix(l, "jti|") {
				keep = append(keep, l)
			}
		}
		return strings.Join(keep, "\n")
	}
	before := grantState()
	var o *Obs
	succeeded := false
	switch {
	case strings.HasPrefix(c.Endpoint, "token/"):
		o = w.Token(form, auth)
		succeeded = issued(o)
	case c.Endpoint == "revoke":
		o = w.Revoke(form.Get("token"), "", auth)
		succeeded = o.RevokeClass() == ""
	case c.Endpoint == "par":
		o = w.PAR(form, auth)
		succeeded = o.Str("request_uri") != ""
		if c.Transport == "other-client-basic+query-client_id" && succeeded {
			// processed in whose name? a request stored for the client that did authenticate is none of X's business
			if ps, ok := w.Mem.PARSessions[o.Str("request_uri")]; ok && ps.GetClient().GetID() != id {
				succeeded = false
				res.note("push-stored-for-the-authenticated-client")
				return
			}
		}
	case c.Endpoint == "device_auth":
		o = w.DeviceAuth(form, auth)
		succeeded = o.Str("device_code") != ""
	}
	res.Trans++
	ok, dc := c10RefAuth(c)
	public := cl.IsPublic()
	skipOK := c.Endpoint == "token/jwt-bearer" && c.SkipAuth
	res.class(fmt.Sprintf("%s:auth=%v:%s", c.Endpoint, ok, map[bool]string{true: "processed", false: o.Class()}[succeeded]))
	if dc {
		res.DontCare++
		return
	}
	if succeeded && public && c.Endpoint == "token/client_credentials" {
		viol("C10/public-client-obtained-client_credentials-token/reg="+c.Reg, "a public client obtained a token through the client_credentials grant", "refusal", o.JSON)
		return
	}
	if succeeded && !ok && !skipOK {
		fp := fmt.Sprintf("C10/processed-without-valid-authentication/%s/reg=%s", c.Endpoint, c.Reg)
		if c.Transport == "query-credentials" {
			fp = fmt.Sprintf("C10/processed-with-credentials-from-the-url-query/%s/reg=%s", c.Endpoint, c.Reg)
		}
		viol(fp,
			fmt.Sprintf("%s processed a request in the name of client registration %q although the presentation (%s, secret %s) does not authenticate it", c.Endpoint, c.Reg, c.Transport, c.Secret), "invalid_client / invalid_request", o.JSON)
		return
	}
	if succeeded && !ok && skipOK && !public {
		// the handler may go on without client authentication, but then not in the name of the confidential client
		io := w.Introspect(o.Str("access_token"), "", "", w.AuthFor("I"), "")
		res.note("skip-auth-token-introspected")
		if cid, _ := io.JSON["client_id"].(string); cid == id {
			viol(fmt.Sprintf("C10/unauthenticated-request-processed-in-the-name-of-client/%s/reg=%s", c.Endpoint, c.Reg),
				fmt.Sprintf("%s went on without client authentication (presentation %s, secret %s does not authenticate %q) yet the issued token is bound to that confidential client", c.Endpoint, c.Transport, c.Secret, c.Reg), "a token not bound to the client", io.JSON)
			return
		}
	}
	if !succeeded && !ok && !skipOK {
		// rejected: class and no token-table effects
		if o.Err != "invalid_client" && o.Err != "invalid_request" {
			viol(fmt.Sprintf("C10/refusal-class/%s/%s/%s", c.Endpoint, c.Transport, o.Err), fmt.Sprintf("a presentation that does not authenticate the client (%s, %s/%s) was refused as %q (HTTP %d), not as invalid_client / invalid_request", c.Reg, c.Transport, c.Secret, o.Err, o.Status), "invalid_client or invalid_request", o.JSON)
		}
		for _, call := range w.Store.Log[logStart:] {
			switch call.Name {
			case "CreateAccessTokenSession", "CreateRefreshTokenSession", "CreateAuthorizeCodeSession", "InvalidateAuthorizeCodeSession", "DeleteAccessTokenSession", "DeleteRefreshTokenSession",
				"RevokeAccessToken", "RevokeRefreshToken", "RotateRefreshToken", "InvalidateDeviceCodeSession", "CreateDeviceAuthSession", "CreatePARSession", "DeletePKCERequestSession", "DeleteOpenIDConnectSession":
				viol("C10/rejected-request-touched-token-state/"+c.Endpoint+"/"+call.Name, fmt.Sprintf("a request rejected for failed client authentication (%s, %s/%s) still called %s", c.Reg, c.Transport, c.Secret, call.Name), "no write", call.Name)
			}
		}
		if grantState() != before {
			viol("C10/rejected-request-changed-state/"+c.Endpoint, "a request rejected for failed client authentication changed stored grant state", "unchanged store", nil)
		}
		if victim != "" {
			if act, _ := w.Active(victim); !act {
				viol("C10/rejected-request-invalidated-token/"+c.Endpoint, "a request rejected for failed client authentication invalidated a token", "still active", nil)
			}
		}
	}
	if !succeeded && ok {
		// canonical presentation refused: only a sanity signal (one-sided property) unless a later, legitimate refusal applies
		if !(public && c.Endpoint == "token/client_credentials") {
			res.note("sanity:valid-presentation-refused:" + c.Reg + "/" + c.Endpoint + "/" + c.Transport + ":" + o.Err)
		}
	}
	if succeeded {
		res.note("processed")
	}
}

type c10Job struct{ Reg, Endpoint string }

func init() {
	registerWorker("c10", func(arg json.RawMessage) (any, error) {
		var j c10Job
		if err := json.Unmarshal(arg, &j); err != nil {
			return nil, err
		}
		res := &WRes{}
		if j.Reg == "jwks-uri" {
			jwksURIAll("C10", res)
			if res.Notes["accepted"] > 0 {
				res.note("processed")
			}
			return res, nil
		}
		for _, tr := range c10Transports {
			for _, se := range c10Secrets {
				for _, skip := range []bool{false, true} {
					if skip && j.Endpoint != "token/jwt-bearer" && !(tr == "nothing" || se == "wrong") {
						continue
					}
					if tr == "other-client-basic+query-client_id" && (j.Endpoint != "par" || se != "current") {
						continue // only the pushed-authorization endpoint takes the client from a request parameter
					}
					for _, other := range []bool{false, true} {
						if other && (j.Endpoint != "token/jwt-bearer" || skip) {
							continue
						}
						c := c10Case{Reg: j.Reg, Transport: tr, Secret: se, Endpoint: j.Endpoint, SkipAuth: skip, OtherJWTBearerSwitches: other}
						n := len(res.Viol)
						c10Run(c, res)
						res.Evals++
						res.distinct(fmt.Sprintf("%+v", c))
						if len(res.Viol) == n {
							res.sample(c)
						}
					}
				}
			}
		}
		return res, nil
	})
	replayFns["c10"] = func(raw json.RawMessage) ([]Violation, error) {
		var c c10Case
		if err := json.Unmarshal(raw, &c); err != nil {
			return nil, err
		}
		res := &WRes{}
		c10Run(c, res)
		return res.Viol, nil
	}
	registerCheck("C10", "exploration", 150*time.Second, 20*time.Minute, func(r *Run) {
		var jobs []any
		for _, reg := range c10Regs {
			for _, ep := range c10Endpoints {
				jobs = append(jobs, c10Job{Reg: reg, Endpoint: ep})
			}
		}
		jobs = append(jobs, c10Job{Reg: "jwks-uri"})
		r.Bounds = map[string]any{"jwks_uri": "private_key_jwt clients resolved through jwks_uri (real fetcher + cache, in-memory transport): 6 look-alike URI pairs x 6 warm-up histories x 4 cross-client presentations", "registrations": c10Regs, "transports": c10Transports, "secret_relations": c10Secrets, "endpoints": c10Endpoints, "jwt_bearer_can_skip_client_auth": []bool{false, true}, "hasher": "real bcrypt (cost 4)"}
		r.Rule = "full product registration x endpoint/grant x transport x secret relation (x skip-auth setting) on a fresh provider with real bcrypt; prerequisites (code, refresh token, device code) are minted through a legitimate presentation first; processed => the presentation authenticates the registration per an independent reference; rejected => no write to any code/token table, unchanged store dump, victim token still active"
		r.Assumptions = []string{"mixed presentations (both transports, assertion+basic) and secrets sent by method=none clients are don't-care", "failing the HTTP Basic form-encoding requirement with special characters is don't-care"}
		res := r.Pool.Do("c10", jobs, r.Deadline)
		if !r.MergeJobs(res) {
			r.Exhaustive = false
		}
		if r.Agg.Notes["processed"] == 0 {
			r.HarnessErrs = append(r.HarnessErrs, "vacuous: nothing was ever processed")
		}
	})
}
