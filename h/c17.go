package main

import (
	"encoding/json"
	"fmt"
	"net/url"
	"sort"
	"strings"
	"time"

	"github.com/ory/fosite"
)

// C17 — pushed authorization requests are one-time, client-bound and authoritative.
// All operation sequences up to a depth over <=2 pushes, with a lock-step model.

type c17Op struct {
	Op    string `json:"op"`              // push | use | plain | advance
	Var   string `json:"var,omitempty"`   // push variant / use target
	URI   int    `json:"uri,omitempty"`   // use: index of the push
	By    string `json:"by,omitempty"`    // use: right | wrong
	Extra string `json:"extra,omitempty"` // use: conflicting query parameter
}

func (o c17Op) String() string {
	switch o.Op {
	case "push":
		return "push(" + o.Var + ")"
	case "use":
		if o.Var != "" {
			return "use(" + o.Var + ")"
		}
		return fmt.Sprintf("use(uri%d,%s,extra=%s)", o.URI, o.By, o.Extra)
	}
	return o.Op
}

type c17Case struct {
	Enforced bool    `json:"enforced"`
	Prefix   string  `json:"prefix,omitempty"`
	Seq      []c17Op `json:"seq"`
	Depth    int     `json:"depth,omitempty"`
	MaxPush  int     `json:"max_push,omitempty"`
}

var c17PushVars = []string{"plain", "pkce-oidc", "with-request_uri", "badsecret", "auth-mismatch", "auth-mismatch-request", "public-P", "form-post", "bare", "auth-mismatch-query"}
var c17Extras = []string{"none", "redirect_uri", "scope", "state", "response_type", "response_mode", "audience", "code_challenge", "nonce", "new-key", "fault-delete", "uri-trail-space"}

const c17L = 300 // PAR context lifetime (server default 5 min)

type c17Push struct {
	uri     string
	client  string
	variant string
	exp     time.Time
	used    bool // an authorization was started from it
	touched bool // a failed attempt hit it: whether it survives is not pinned
	valid   bool
	form    url.Values
}

func c17Run(c c17Case, res *WRes) (outcomes []string) {
	w := NewWorld(Profile{PAREnforced: c.Enforced, PARPrefix: c.Prefix})
	prefix := c.Prefix
	if prefix == "" {
		prefix = "urn:ietf:params:oauth:request_uri:"
	}
	if a, ok := w.Mem.Clients["A"].(*fosite.DefaultClient); ok {
		// client A may use every response mode (needed for the pushed form_post variant)
		w.Mem.Clients["A"] = &fosite.DefaultResponseModeClient{DefaultClient: a, ResponseModes: []fosite.ResponseModeType{fosite.ResponseModeQuery, fosite.ResponseModeFragment, fosite.ResponseModeFormPost}}
	}
	var pushes []*c17Push
	viol := func(upto int, fp, what, exp string, obs any) {
		cc := c
		cc.Depth, cc.MaxPush = 0, 0
		cc.Seq = append([]c17Op(nil), c.Seq[:upto+1]...)
		res.violate(Violation{Property: "C17", Fingerprint: fp, What: what + " | history: " + c17Hist(cc.Seq), Engine: "c17", Case: cc, Expected: exp, Observed: obs})
	}
	for i, op := range c.Seq {
		switch op.Op {
		case "advance":
			w.Advance((c17L + 5) * time.Second)
			outcomes = append(outcomes, "advance")
		case "plain":
			o := w.Authorize(url.Values{"client_id": {"A"}, "redirect_uri": {"https://A.example/cb"}, "state": {"state-plain-1234"}, "response_type": {"code"}, "scope": {"a"}}, AuthzOpts{})
			res.Trans++
			got := o.Param("code") != ""
			outcomes = append(outcomes, fmt.Sprintf("plain:%v", got))
			if c.Enforced && got {
				viol(i, "C17/enforced-but-plain-authorize-accepted", "pushed authorization is enforced but an authorization request without request_uri was accepted", "refusal", o.Location)
			}
			if !c.Enforced && !got {
				res.note("sanity:plain-authorize-refused")
			}
		case "push":
			form := url.Values{"client_id": {"A"}, "redirect_uri": {"https://A.example/cb"}, "state": {fmt.Sprintf("pushed-state-%d-12345", len(pushes))}, "response_type": {"code"}, "scope": {"offline a"}, "audience": {"https://api.example/a"}}
			auth := w.AuthFor("A")
			p := &c17Push{client: "A", variant: op.Var}
			switch op.Var {
			case "pkce-oidc":
				form.Set("scope", "openid offline a")
				form.Set("nonce", "pushed-nonce-12345")
				form.Set("code_challenge", s256(pkceV0))
				form.Set("code_challenge_method", "S256")
			case "with-request_uri":
				form.Set("request_uri", prefix+"abc")
			case "form-post":
				form.Set("response_mode", "form_post")
			case "bare":
				// neither scope nor audience is pushed: the authorization proceeds with none, whatever the query adds
				form.Del("scope")
				form.Del("audience")
			case "badsecret":
				auth = BasicAuth("A", "wrong")
			case "auth-mismatch-query":
				// authenticates as B in the header, names A in the URL query of the POST (nothing in the body)
				auth = w.AuthFor("B")
				form.Del("client_id")
				auth.Query = url.Values{"client_id": {"A"}}
			case "auth-mismatch", "auth-mismatch-request":
				// authenticates as B in the header, names A in the body
				auth = w.AuthFor("B")
				auth.Extra = url.Values{"client_id": {"A"}}
				if op.Var == "auth-mismatch-request" {
					// ... and carries a request object parameter (not even parsed without the openid scope)
					form.Set("request", "eyJhbGciOiJub25lIn0.e30.")
				}
			case "public-P":
				form.Set("client_id", "P")
				form.Set("redirect_uri", "https://P.example/cb")
				auth = w.AuthFor("P")
				p.client = "P"
			}
			before := len(w.Mem.PARSessions)
			o := w.PAR(form, auth)
			res.Trans++
			p.uri = o.Str("request_uri")
			p.valid = p.uri != ""
			p.exp = w.Now().Add(c17L * time.Second)
			p.form = form
			pushes = append(pushes, p)
			outcomes = append(outcomes, "push:"+op.Var+":"+o.Class())
			stored := len(w.Mem.PARSessions) > before
			switch op.Var {
			case "with-request_uri":
				if p.valid || stored {
					viol(i, "C17/push-containing-request_uri-accepted", "a pushed request that itself contains request_uri was accepted", "invalid_request", o.JSON)
				}
			case "badsecret":
				if p.valid || stored {
					viol(i, "C17/push-accepted-without-client-authentication", "a push that failed client authentication was stored", "invalid_client", o.JSON)
				}
			case "auth-mismatch", "auth-mismatch-request", "auth-mismatch-query":
				if p.valid {
					// whose request is it? it must not be A's: A's secret was never shown
					for k, s := range w.Mem.PARSessions {
						if k == p.uri && s.GetClient().GetID() == "A" {
							viol(i, "C17/push-stored-for-client-that-did-not-authenticate", "client B authenticated at the push endpoint, named client A in the body, and the request was stored in A's name", "refusal (or a request bound to B)", o.JSON)
						}
					}
					p.client = "B"
				}
			default:
				if !p.valid {
					res.note("sanity:push-refused:" + op.Var + ":" + o.Class())
				} else {
					if !strings.HasPrefix(p.uri, prefix) {
						viol(i, "C17/request_uri-without-configured-prefix", "the returned request_uri does not carry the configured prefix", prefix, p.uri)
					}
					if ei, ok := o.JSON["expires_in"].(float64); ok && (ei < c17L-1 || ei > c17L+1) {
						viol(i, "C17/expires_in-inconsistent", fmt.Sprintf("push advertises expires_in=%v, lifetime %d", ei, c17L), fmt.Sprint(c17L), ei)
					}
					for j, q := range pushes[:len(pushes)-1] {
						if q.valid && q.uri == p.uri {
							viol(i, "C17/request_uri-repeated", fmt.Sprintf("pushes %d and %d returned the same request_uri", j, len(pushes)-1), "distinct", p.uri)
						}
					}
				}
			}
		case "use":
			if op.Var != "" {
				// not a server-issued URI
				uri := prefix + "unknown-0123456789abcdef"
				if op.Var == "foreign-prefix" {
					uri = "urn:example:other:0123456789"
				}
				o := w.Authorize(url.Values{"client_id": {"A"}, "request_uri": {uri}, "redirect_uri": {"https://A.example/cb"}, "state": {"state-plain-1234"}, "response_type": {"code"}, "scope": {"a"}}, AuthzOpts{})
				res.Trans++
				got := o.Param("code") != ""
				outcomes = append(outcomes, fmt.Sprintf("use:%s:%v", op.Var, got))
				if got && (c.Enforced || op.Var == "unknown") {
					viol(i, "C17/authorization-from-invalid-request_uri/"+op.Var+fmt.Sprintf("/enforced=%v", c.Enforced), "an authorization was started from a request_uri this server never issued ("+op.Var+")", "refusal", o.Location)
				}
				continue
			}
			p := pushes[op.URI]
			if !p.valid {
				outcomes = append(outcomes, "use:no-uri")
				continue
			}
			client := p.client
			if op.By == "wrong" {
				client = "B"
				if p.client == "B" {
					client = "A"
				}
			}
			q := url.Values{"client_id": {client}, "request_uri": {p.uri}}
			switch op.Extra {
			case "redirect_uri":
				q.Set("redirect_uri", "https://"+p.client+".example/cb2")
			case "scope":
				q.Set("scope", "photos")
			case "state":
				q.Set("state", "attacker-state-123456")
			case "response_type":
				q.Set("response_type", "token")
			case "response_mode":
				q.Set("response_mode", "fragment")
			case "audience":
				q.Set("audience", "https://other.example")
			case "code_challenge":
				q.Set("code_challenge", s256("attacker-verifier-0123456789-0123456789-0123456789"))
				q.Set("code_challenge_method", "S256")
			case "nonce":
				q.Set("nonce", "attacker-nonce-123456")
			case "new-key":
				q.Set("prompt", "none")
				q.Set("login_hint", "attacker")
			case "uri-trail-space":
				// whatever spelling starts an authorization counts as a use of the pushed request
				q.Set("request_uri", p.uri+" ")
			}
			logStart := len(w.Store.Log)
			if op.Extra == "fault-delete" {
				// the store fails to delete the pushed request during this one authorization
				w.Store.Before = func(call *Call) error {
					if call.Name == "DeletePARSession" {
						return fmt.Errorf("storage: connection reset")
					}
					return nil
				}
			}
			o := w.Authorize(q, AuthzOpts{})
			w.Store.Before = nil
			res.Trans++
			code := o.Param("code")
			now := w.Now()
			expired := !now.Before(p.exp.Add(time.Second))
			near := now.After(p.exp.Add(-time.Second)) && !expired
			right := op.By == "right"
			cls := fmt.Sprintf("use:%s/extra=%s/used=%v/expired=%v:%s", op.By, op.Extra, p.used, expired, map[bool]string{true: "code", false: o.Class()}[code != ""])
			outcomes = append(outcomes, cls)
			started := code != "" || o.Param("access_token") != "" || o.Param("id_token") != ""
			if started {
				why := ""
				switch {
				case p.used:
					why = "second-use"
				case !right:
					why = "wrong-client"
				case expired:
					why = "expired"
				}
				if why != "" && !(why == "expired" && near) {
					viol(i, "C17/authorization-started/"+why, "an authorization was started from a request_uri that must not start one ("+why+")", "refusal", o.Location)
					return
				}
				p.used = true
				// the authorization proceeds with the pushed values
				wantRedirect := p.form.Get("redirect_uri")
				if p.variant == "form-post" {
					if o.FormPost == nil || o.FormAct != wantRedirect {
						viol(i, "C17/override/response_mode/extra="+op.Extra, "the pushed response_mode=form_post was not used to deliver the authorization response", "auto-submitting form posting to "+wantRedirect, o.Location+o.FormAct)
					}
				} else if !strings.HasPrefix(o.Location, wantRedirect+"?") {
					viol(i, "C17/override/redirect_uri/extra="+op.Extra, "the authorization response was not sent to the pushed redirect_uri", wantRedirect, o.Location)
				}
				if o.Param("state") != p.form.Get("state") {
					viol(i, "C17/override/state/extra="+op.Extra, "the state echoed is not the pushed state", p.form.Get("state"), o.Param("state"))
				}
				if o.Fragment.Get("code") != "" || o.Param("access_token") != "" {
					viol(i, "C17/override/response_type-or-mode/extra="+op.Extra, "the response was not delivered with the pushed response_type/response_mode (code in the query)", "code in query", o.Location)
				}
				// every pushed form key that reaches storage keeps its pushed value
				for _, call := range w.Store.Log[logStart:] {
					if call.Form == nil {
						continue
					}
					for k, vs := range call.Form {
						if pv, ok := p.form[k]; ok && k != "client_id" && strings.Join(vs, " ") != strings.Join(pv, " ") {
							viol(i, "C17/override/stored-form-key="+k+"/extra="+op.Extra, fmt.Sprintf("%s stored %s=%q, pushed value %q", call.Name, k, vs, pv), strings.Join(pv, " "), vs)
						}
						if _, ok := p.form[k]; !ok && (k == "prompt" || k == "login_hint" || k == "code_challenge" || k == "nonce") {
							// a parameter that was not pushed at all is not an override of a pushed value: not pinned by the statement
							res.note("extra-parameter-added-to-pushed-request:" + k)
						}
					}
				}
				// redeem and compare the grant
				tf := url.Values{"grant_type": {"authorization_code"}, "code": {code}, "redirect_uri": {wantRedirect}}
				if p.variant == "pkce-oidc" {
					// the attacker's verifier must not work, the pusher's must
					af := cloneValues(tf)
					af.Set("code_verifier", "attacker-verifier-0123456789-0123456789-0123456789")
					if ao := w.Token(af, w.AuthFor(p.client)); issued(ao) {
						viol(i, "C17/override/code_challenge", "the code was redeemed with a verifier for a code_challenge supplied next to request_uri, not the pushed one", "invalid_grant", ao.JSON)
						continue
					}
					tf.Set("code_verifier", pkceV0)
				}
				to := w.Token(tf, w.AuthFor(p.client))
				res.Trans++
				if !issued(to) {
					res.note("sanity:redeem-after-par-refused:" + to.Class())
					continue
				}
				_, io := w.Active(to.Str("access_token"))
				gs := strings.Fields(io.Str("scope"))
				sort.Strings(gs)
				ws := strings.Fields(p.form.Get("scope"))
				sort.Strings(ws)
				if strings.Join(gs, " ") != strings.Join(ws, " ") {
					viol(i, "C17/override/scope/extra="+op.Extra, fmt.Sprintf("token scope %v differs from the pushed scope %v", gs, ws), strings.Join(ws, " "), io.JSON)
				}
				auds, _ := io.JSON["aud"].([]any)
				if wa := p.form.Get("audience"); (wa == "" && len(auds) != 0) || (wa != "" && (len(auds) != 1 || auds[0] != wa)) {
					viol(i, "C17/override/audience/extra="+op.Extra, fmt.Sprintf("token audience %v differs from the pushed audience %q", auds, p.form.Get("audience")), p.form.Get("audience"), io.JSON)
				}
				if io.Str("client_id") != p.client {
					viol(i, "C17/override/client", "token client differs from the pushing client", p.client, io.JSON)
				}
				if idt := to.Str("id_token"); idt != "" {
					if _, cl, err := decodeJWT(idt); err == nil {
						if n, _ := cl["nonce"].(string); n != p.form.Get("nonce") {
							viol(i, "C17/override/nonce/extra="+op.Extra, fmt.Sprintf("ID token nonce %q differs from the pushed nonce %q", n, p.form.Get("nonce")), p.form.Get("nonce"), n)
						}
					}
				}
				res.note("grant-compared")
			} else {
				if right && !p.used && !p.touched && !expired && !near {
					res.note("sanity:legit-use-refused:" + o.Class())
				}
				if !p.used {
					p.touched = true
				}
			}
		}
	}
	return outcomes
}

func c17Hist(seq []c17Op) string {
	s := make([]string, len(seq))
	for i, o := range seq {
		s[i] = o.String()
	}
	return strings.Join(s, " ; ")
}

// c17Split: enforcement is a property of the configuration, not of which endpoint handlers an instance happens to be
// composed with: the authorization-serving instance of a split deployment (no push handler) refuses plain requests too,
// and starts authorizations from request_uris pushed at the other instance (same store).
type c17SplitCase struct {
	Enforced bool `json:"enforced"`
	Split    bool `json:"authorization_instance_without_push_handler"`
}

func c17SplitRun(c c17SplitCase, res *WRes) {
	w := NewWorld(Profile{PAREnforced: c.Enforced, NoPARFactory: c.Split})
	o := w.Authorize(url.Values{"client_id": {"A"}, "redirect_uri": {"https://A.example/cb"}, "state": {"state-plain-1234"}, "response_type": {"code"}, "scope": {"a"}}, AuthzOpts{})
	res.Trans++
	got := o.Param("code") != ""
	res.class(fmt.Sprintf("split:enforced=%v/split=%v:plain-authorize:%v", c.Enforced, c.Split, got))
	res.distinct(fmt.Sprintf("split%+v", c))
	if c.Enforced && got {
		res.violate(Violation{Property: "C17", Fingerprint: fmt.Sprintf("C17/enforced-but-plain-authorize-accepted/instance-without-push-handler=%v", c.Split), What: "pushed authorization is enforced but an authorization request without request_uri was accepted", Engine: "c17split", Case: c, Expected: "refusal", Observed: o.Location})
	}
	if !c.Enforced && !got {
		res.note("sanity:plain-authorize-refused")
	}
}

// c17RequestObjectPush: "refuses requests that themselves contain a request_uri" also where the request_uri travels as a
// claim of a signed request object inside the pushed request.
type c17ROCase struct {
	Claim bool `json:"request_object_has_request_uri_claim"`
}

func c17RORun(c c17ROCase, res *WRes) {
	w := NewWorld(Profile{})
	oc := &fosite.DefaultOpenIDConnectClient{DefaultClient: w.AddClient("O", "secret-O", false), TokenEndpointAuthMethod: "client_secret_basic", RequestObjectSigningAlgorithm: "RS256", JSONWebKeys: jwks(pubJWK(rsaKey("rsa1"), "rk", "RS256"))}
	oc.DefaultClient.RedirectURIs = []string{"https://O.example/cb"}
	w.Mem.Clients["O"] = oc
	claims := map[string]any{"iss": "O", "aud": IssuerURL, "client_id": "O", "response_type": "code", "redirect_uri": "https://O.example/cb", "scope": "openid a", "state": "ro-state-0123456789", "nonce": "ro-nonce-0123456789"}
	if c.Claim {
		claims["request_uri"] = "urn:ietf:params:oauth:request_uri:0123456789abcdef"
	}
	form := url.Values{"client_id": {"O"}, "redirect_uri": {"https://O.example/cb"}, "state": {"pushed-state-0-12345"}, "response_type": {"code"}, "scope": {"openid a"}, "nonce": {"pushed-nonce-12345"},
		"request": {signJWT(rsaKey("rsa1"), "RS256", "rk", claims, nil)}}
	before := len(w.Mem.PARSessions)
	o := w.PAR(form, w.AuthFor("O"))
	res.Trans++
	accepted := o.Str("request_uri") != "" || len(w.Mem.PARSessions) > before
	res.class(fmt.Sprintf("push-with-request-object:request_uri-claim=%v:accepted=%v", c.Claim, accepted))
	res.distinct(fmt.Sprintf("ro%+v", c))
	if c.Claim && accepted {
		res.violate(Violation{Property: "C17", Fingerprint: "C17/push-containing-request_uri-accepted/inside-request-object", What: "a pushed request whose request object carries a request_uri claim was accepted", Engine: "c17ro", Case: c, Expected: "invalid_request", Observed: o.JSON})
	}
	if !c.Claim && !accepted {
		res.note("sanity:push-with-plain-request-object-refused:" + o.Class())
	}
}

func c17Split(r *Run) {
	res := &WRes{}
	for _, cl := range []bool{false, true} {
		c17RORun(c17ROCase{Claim: cl}, res)
		res.Evals++
	}
	for _, enf := range []bool{false, true} {
		for _, sp := range []bool{false, true} {
			c17SplitRun(c17SplitCase{Enforced: enf, Split: sp}, res)
			res.Evals++
		}
	}
	r.Merge(res)
}

func c17Alphabet(npush, maxPush int, extras []string) []c17Op {
	var ops []c17Op
	if npush < maxPush {
		for _, v := range c17PushVars {
			ops = append(ops, c17Op{Op: "push", Var: v})
		}
	}
	for u := 0; u < npush; u++ {
		for _, e := range extras {
			ops = append(ops, c17Op{Op: "use", URI: u, By: "right", Extra: e})
		}
		ops = append(ops, c17Op{Op: "use", URI: u, By: "wrong", Extra: "none"})
	}
	ops = append(ops, c17Op{Op: "use", Var: "unknown"}, c17Op{Op: "use", Var: "foreign-prefix"}, c17Op{Op: "plain"})
	if npush > 0 {
		ops = append(ops, c17Op{Op: "advance"})
	}
	return ops
}

func init() {
	registerWorker("c17", func(arg json.RawMessage) (any, error) {
		var c c17Case
		if err := json.Unmarshal(arg, &c); err != nil {
			return nil, err
		}
		res := &WRes{}
		var rec func(seq []c17Op, np int, left int)
		rec = func(seq []c17Op, np int, left int) {
			if left == 0 {
				cc := c
				cc.Seq = seq
				n := len(res.Viol)
				out := c17Run(cc, res)
				res.Evals++
				res.States++
				res.Traces++
				res.distinct(fmt.Sprintf("%v|%s|%v|%v", c.Enforced, c.Prefix, seq, out))
				for _, o := range out {
					res.class(o)
				}
				if len(res.Viol) == n {
					res.sample(map[string]any{"enforced": c.Enforced, "history": c17Hist(seq), "outcomes": out})
				}
				return
			}
			for _, op := range c17Alphabet(np, c.MaxPush, c17Extras) {
				n := np
				if op.Op == "push" {
					n++
				}
				rec(append(append([]c17Op(nil), seq...), op), n, left-1)
			}
		}
		np := 0
		for _, o := range c.Seq {
			if o.Op == "push" {
				np++
			}
		}
		for L := 0; L <= c.Depth; L++ {
			rec(c.Seq, np, L)
		}
		return res, nil
	})
	replayFns["c17"] = func(raw json.RawMessage) ([]Violation, error) {
		var c c17Case
		if err := json.Unmarshal(raw, &c); err != nil {
			return nil, err
		}
		res := &WRes{}
		c17Run(c, res)
		return res.Viol, nil
	}
	replayFns["c17ro"] = func(raw json.RawMessage) ([]Violation, error) {
		var c c17ROCase
		if err := json.Unmarshal(raw, &c); err != nil {
			return nil, err
		}
		res := &WRes{}
		c17RORun(c, res)
		return res.Viol, nil
	}
	replayFns["c17split"] = func(raw json.RawMessage) ([]Violation, error) {
		var c c17SplitCase
		if err := json.Unmarshal(raw, &c); err != nil {
			return nil, err
		}
		res := &WRes{}
		c17SplitRun(c, res)
		return res.Viol, nil
	}
	registerCheck("C17", "model_checking", 120*time.Second, 30*time.Minute, func(r *Run) {
		depth := 4
		if !r.Quick() {
			depth = 5
		}
		var jobs []any
		for _, enf := range []bool{false, true} {
			for _, pfx := range []string{"", "urn:custom:par:"} {
				for _, a := range c17Alphabet(0, 2, c17Extras) {
					np := 0
					if a.Op == "push" {
						np = 1
					}
					for _, b := range c17Alphabet(np, 2, c17Extras) {
						jobs = append(jobs, c17Case{Enforced: enf, Prefix: pfx, Seq: []c17Op{a, b}, Depth: depth - 2, MaxPush: 2})
					}
				}
			}
		}
		r.Bounds = map[string]any{"depth": depth, "max_pushes": 2, "enforcement": []bool{false, true}, "prefixes": []string{"default", "urn:custom:par:"}, "push_variants": c17PushVars, "conflicting_extras": c17Extras,
			"alphabet": "push(variant); use(uri_i, right, extra) ; use(uri_i, wrong client); use(unknown uri); use(foreign-prefix uri); plain authorize; advance(past lifetime)"}
		r.Rule = "every operation sequence up to the depth (iterative deepening, each executed from scratch on a fresh provider) with a lock-step model of every pushed request (owner, expiry, used); each started authorization is carried through redemption and introspection and compared with the pushed values; distinct = distinct (config, sequence, outcome vector)"
		r.Assumptions = []string{"whether a request_uri survives a refused attempt (wrong client) is not pinned by the statement; the model accepts both"}
		res := r.Pool.Do("c17", jobs, r.Deadline)
		if !r.MergeJobs(res) {
			r.Exhaustive = false
		}
		c17Split(r)
		if r.Agg.Notes["grant-compared"] == 0 {
			r.HarnessErrs = append(r.HarnessErrs, "vacuous: no authorization was started from a pushed request")
		}
	})
}
