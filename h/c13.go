package main

import (
	"bytes"
	"encoding/json"
	"fmt"
	"io"
	"net/http"
	"net/url"
	"sort"
	"strings"
	"time"

	"github.com/hashicorp/go-retryablehttp"

	"github.com/ory/fosite"
)

// C13 — authorization requests are validated and tokens never travel in the query string.

type c13Case struct {
	Group     string   `json:"group"`
	RegRT     []string `json:"registered_response_types"`
	RegGrants []string `json:"registered_grants"`
	RegModes  []string `json:"registered_modes"` // nil => client does not implement ResponseModeClient
	Public    bool     `json:"public"`
	URIs      int      `json:"registered_uris"`
	RT        string   `json:"response_type"`
	Mode      string   `json:"response_mode"`
	State     string   `json:"state"`
	Nonce     string   `json:"nonce"` // "-" => absent
	Scope     string   `json:"scope"`
	NoRedir   bool     `json:"omit_redirect_uri"`
	MinEnt    int      `json:"min_entropy"`
	RO        string   `json:"request_object,omitempty"`
	ROAlg     string   `json:"request_object_signing_alg,omitempty"`
	ClientID  string   `json:"client_id,omitempty"`
	// ViaPAR: the request is pushed first. "mode-pushed": response_mode is part of the pushed request;
	// "mode-added": it is left out of the push and appended to the front-channel request instead
	ViaPAR string `json:"via_par,omitempty"`
	// RegQuery: the registered redirect URI carries query parameters of its own that are named like response
	// parameters (state, scope)
	RegQuery bool `json:"registered_uri_has_state_and_scope_query,omitempty"`
}

func strOfLen(n int) string { return strings.Repeat("s", n) }

type memRT struct{ docs map[string]string }

func (m memRT) RoundTrip(r *http.Request) (*http.Response, error) {
	body, ok := m.docs[r.URL.String()]
	if !ok {
		return &http.Response{StatusCode: 404, Body: io.NopCloser(bytes.NewReader(nil)), Header: http.Header{}, Request: r}, nil
	}
	return &http.Response{StatusCode: 200, Body: io.NopCloser(strings.NewReader(body)), Header: http.Header{}, Request: r}, nil
}

func c13Run(c c13Case, res *WRes) {
	w := NewWorld(Profile{MinEntropy: c.MinEnt})
	viol := func(fp, what, exp string, obs any) {
		res.violate(Violation{Property: "C13", Fingerprint: fp, What: what, Engine: "c13", Case: c, Expected: exp, Observed: obs})
	}
	base := w.AddClient("V", "secret-V", c.Public)
	if c.Public {
		base.Secret = nil
	}
	base.ResponseTypes = c.RegRT
	base.GrantTypes = c.RegGrants
	base.RedirectURIs = []string{"https://v.example/cb", "https://v.example/cb2"}[:max(1, c.URIs)]
	redirectURI := "https://v.example/cb"
	if c.RegQuery {
		redirectURI = "https://v.example/cb?state=landing&scope=landing"
		base.RedirectURIs[0] = redirectURI
	}
	var cl fosite.Client = base
	if c.RegModes != nil {
		var ms []fosite.ResponseModeType
		for _, m := range c.RegModes {
			ms = append(ms, fosite.ResponseModeType(m))
		}
		cl = &fosite.DefaultResponseModeClient{DefaultClient: base, ResponseModes: ms}
	}
	roState := "ro-state-0123456789"
	var ro string
	if c.RO != "" {
		oc := &fosite.DefaultOpenIDConnectClient{DefaultClient: base, RequestObjectSigningAlgorithm: c.ROAlg, RequestURIs: []string{"https://v.example/ro.jwt"},
			JSONWebKeys: jwks(pubJWK(rsaKey("rsa1"), "rk", "RS256"), pubJWK(ecKey("ec256a"), "ek", "ES256"))}
		cl = oc
		claims := map[string]any{"iss": "V", "aud": IssuerURL, "scope": "openid photos", "state": roState, "client_id": "V", "response_type": c.RT, "redirect_uri": "https://v.example/cb"}
		switch c.RO {
		case "rs256-registered", "uri-registered", "uri-unregistered", "uri-fetch-fails", "both", "uri-case-variant", "uri-trailing-slash", "uri-with-query":
			ro = signJWT(rsaKey("rsa1"), "RS256", "rk", claims, nil)
		case "es256-registered":
			ro = signJWT(ecKey("ec256a"), "ES256", "ek", claims, nil)
		case "ps256-registered":
			ro = signJWT(rsaKey("rsa1"), "PS256", "rk", claims, nil)
		case "rs256-other-key":
			ro = signJWT(rsaKey("rsa2"), "RS256", "rk", claims, nil)
		case "rs256-unknown-kid":
			ro = signJWT(rsaKey("rsa2"), "RS256", "zz", claims, nil)
		case "es256-other-key":
			ro = signJWT(ecKey("ec256b"), "ES256", "ek", claims, nil)
		case "none":
			ro = signJWT(nil, "none", "", claims, nil)
		case "hs256-client-secret":
			ro = signJWT([]byte("secret-V"), "HS256", "", claims, nil)
		case "hs256-public-key":
			ro = signJWT([]byte("rk"), "HS256", "rk", claims, nil)
		case "rs256-expired":
			claims["exp"] = w.Now().Add(-time.Hour).Unix()
			ro = signJWT(rsaKey("rsa1"), "RS256", "rk", claims, nil)
		case "rs256-not-yet-valid":
			claims["nbf"] = w.Now().Add(time.Hour).Unix()
			ro = signJWT(rsaKey("rsa1"), "RS256", "rk", claims, nil)
		case "rs256-tampered":
			t := signJWT(rsaKey("rsa1"), "RS256", "rk", claims, nil)
			p := strings.Split(t, ".")
			claims["scope"] = "openid photos b.c"
			cb, _ := json.Marshal(claims)
			ro = p[0] + "." + b64(cb) + "." + p[2]
		}
		hc := retryablehttp.NewClient()
		hc.RetryMax = 0
		hc.Logger = nil
		docs := map[string]string{"https://v.example/ro.jwt": ro, "https://evil.example/ro.jwt": ro, "https://v.example/RO.jwt": ro, "https://V.example/ro.jwt": ro, "https://v.example/ro.jwt/": ro, "https://v.example/ro.jwt?x=1": ro}
		if c.RO == "uri-fetch-fails" {
			docs = map[string]string{}
		}
		hc.HTTPClient.Transport = memRT{docs: docs}
		w.Cfg.HTTPClient = hc
	}
	w.Mem.Clients["V"] = cl
	p := url.Values{"client_id": {"V"}, "response_type": {c.RT}}
	if c.ClientID != "" {
		p.Set("client_id", c.ClientID)
	}
	if c.State != "-" {
		p.Set("state", c.State)
	}
	if c.Nonce != "-" {
		p.Set("nonce", c.Nonce)
	}
	if c.Scope != "" {
		p.Set("scope", c.Scope)
	}
	if !c.NoRedir {
		p.Set("redirect_uri", redirectURI)
	}
	if c.Mode != "" {
		p.Set("response_mode", c.Mode)
	}
	switch c.RO {
	case "":
	case "uri-registered", "uri-fetch-fails":
		p.Set("request_uri", "https://v.example/ro.jwt")
	case "uri-unregistered":
		p.Set("request_uri", "https://evil.example/ro.jwt")
	case "uri-case-variant":
		// not the pre-registered string: differs in the case of the path
		p.Set("request_uri", "https://v.example/RO.jwt")
	case "uri-trailing-slash":
		p.Set("request_uri", "https://v.example/ro.jwt/")
	case "uri-with-query":
		p.Set("request_uri", "https://v.example/ro.jwt?x=1")
	case "both":
		p.Set("request", ro)
		p.Set("request_uri", "https://v.example/ro.jwt")
	default:
		p.Set("request", ro)
	}
	var o *Obs
	if c.ViaPAR != "" {
		push := url.Values{}
		for k, v := range p {
			push[k] = v
		}
		if c.ViaPAR == "mode-added" {
			push.Del("response_mode")
		}
		po := w.PAR(push, w.AuthFor("V"))
		res.Trans++
		ru := po.Str("request_uri")
		if ru == "" {
			res.class(c.Group + ":push-refused:" + po.Class())
			return
		}
		q := url.Values{"client_id": {"V"}, "request_uri": {ru}}
		if c.ViaPAR == "mode-added" && c.Mode != "" {
			q.Set("response_mode", c.Mode)
		}
		o = w.Authorize(q, AuthzOpts{})
	} else {
		o = w.Authorize(p, AuthzOpts{})
	}
	res.Trans++
	code, at, idt := o.Param("code"), o.Param("access_token"), o.Param("id_token")
	accepted := code != "" || at != "" || idt != ""
	res.class(fmt.Sprintf("%s:%s", c.Group, map[bool]string{true: "accepted", false: o.Class()}[accepted]))
	// (i) tokens never in the query string
	if o.Query.Get("access_token") != "" || o.Query.Get("id_token") != "" {
		viol("C13/token-in-query-string/rt="+strings.ReplaceAll(c.RT, " ", "+")+"/mode="+c.Mode, "an access token or ID token was delivered in the redirect's query string", "fragment or form post", o.Location)
	}
	// (j) state echoed unchanged on success and on redirected errors
	if (o.Location != "" || o.FormPost != nil) && c.RO == "" && c.State != "-" {
		got := o.Param("state")
		if c.RegQuery {
			// the client reads the response from the channel it was delivered in
			switch {
			case o.FormPost != nil:
				got = o.FormPost["state"]
			case o.Fragment.Get("state") != "" || o.Fragment.Get("error") != "" || o.Fragment.Get("code") != "" || o.Fragment.Get("access_token") != "" || o.Fragment.Get("id_token") != "":
				got = o.Fragment.Get("state")
			default:
				// the value a client reads with url.Values.Get (the first one); the error writer appends the registered
				// URI's own parameters after the response parameters, which leaves a second state value behind it
				got = o.Query.Get("state")
				if n := len(o.Query["state"]); n > 1 {
					res.note("registered-query-parameter-repeated-after-the-response-parameter")
				}
			}
		}
		if got != c.State {
			viol("C13/state-not-echoed/"+map[bool]string{true: "success", false: "error"}[accepted], fmt.Sprintf("the redirect carries state %q, the request sent %q", got, c.State), c.State, o.Location)
		}
	}
	if !accepted && c.RO != "" && (o.Err == "error" || o.Status >= 500) {
		// a request object that cannot be honoured is a client error with an OAuth 2.0 error code, never the
		// fallback {"error":"error"} / HTTP 500 of a raw Go error
		viol("C13/request-object-refused-with-malformed-error/"+c.RO, fmt.Sprintf("a request object (%s) is refused with HTTP %d, error code %q: not an OAuth 2.0 error response", c.RO, o.Status, o.Err), "invalid_request_object (or another OAuth 2.0 error)", o.Body+o.Location)
		return
	}
	if !accepted {
		return
	}
	res.distinct(fmt.Sprintf("%+v", c))
	req := strings.Fields(strings.ToLower(c.RT)) // response types are matched case-insensitively by the library; grants must follow
	sort.Strings(req)
	// (b) response_type is one of the registered combinations, as a set
	match := false
	for _, r := range c.RegRT {
		rr := strings.Fields(r)
		sort.Strings(rr)
		if strings.Join(rr, " ") == strings.Join(req, " ") {
			match = true
		}
	}
	if c.ClientID != "" {
		viol("C13/accepted-for-unknown-client", "an authorization request naming an unknown client was accepted", "refusal", o.Location)
		return
	}
	if !match {
		viol("C13/accepted-unregistered-response_type/rt="+strings.ReplaceAll(c.RT, " ", "+"), fmt.Sprintf("response_type %q accepted although the client registered only %v", c.RT, c.RegRT), "unsupported_response_type", o.Location)
		return
	}
	// (c) response_mode
	if c.ViaPAR == "mode-added" {
		// the appended response_mode was never validated with the pushed request: it may be ignored, but if the
		// response is actually delivered that way, the client must be allowed to use that mode
		used := ""
		switch {
		case o.FormPost != nil:
			used = "form_post"
		case o.Fragment.Get("code") != "" || o.Fragment.Get("access_token") != "" || o.Fragment.Get("id_token") != "":
			used = "fragment"
		case o.Query.Get("code") != "":
			used = "query"
		}
		if c.Mode != "" && used == c.Mode && (c.RT != "code" || used != "query") {
			ok := false
			for _, m := range c.RegModes {
				if m == c.Mode {
					ok = true
				}
			}
			defaultMode := "fragment"
			if c.RT == "code" {
				defaultMode = "query"
			}
			if !ok && used != defaultMode {
				viol("C13/par-second-leg-response_mode-not-validated/mode="+c.Mode, fmt.Sprintf("a response_mode %q appended to the request_uri leg of a pushed request was used for delivery although the client may only use %v", c.Mode, c.RegModes), "ignored or refused", o.Location+o.FormAct)
				return
			}
		}
	} else if c.Mode != "" {
		ok := false
		for _, m := range c.RegModes {
			if m == c.Mode {
				ok = true
			}
		}
		if !ok {
			viol("C13/accepted-unregistered-response_mode/mode="+c.Mode, fmt.Sprintf("response_mode %q accepted although the client may only use %v", c.Mode, c.RegModes), "unsupported_response_mode", o.Location+o.FormAct)
			return
		}
	}
	minEnt := c.MinEnt
	if minEnt == 0 {
		minEnt = 8
	}
	effState := c.State
	if c.State == "-" {
		effState = ""
	}
	// (d) state length
	if len(effState) < minEnt && c.RO == "" {
		viol("C13/accepted-short-state", fmt.Sprintf("state of length %d accepted, minimum %d", len(effState), minEnt), "invalid_state", o.Location)
		return
	}
	openid := false
	for _, s := range strings.Fields(c.Scope) {
		if s == "openid" {
			openid = true
		}
	}
	// (e) OpenID Connect requests carry a redirect_uri
	if openid && c.NoRedir && c.RO == "" {
		viol("C13/openid-request-without-redirect_uri-accepted", "an OpenID Connect request without redirect_uri was accepted", "invalid_request", o.Location)
		return
	}
	// (f) nonce for implicit / hybrid ID-token requests
	hasIDT := false
	for _, t := range req {
		if t == "id_token" {
			hasIDT = true
		}
	}
	if idt != "" && hasIDT {
		n := c.Nonce
		if n == "-" {
			n = ""
		}
		if len(n) < minEnt {
			viol("C13/id-token-issued-with-short-or-missing-nonce/rt="+strings.ReplaceAll(c.RT, " ", "+"), fmt.Sprintf("an ID token was issued by the authorization endpoint for nonce of length %d (minimum %d)", len(n), minEnt), "invalid_request / insufficient_entropy", o.Location)
			return
		}
	}
	hasGrant := func(g string) bool {
		for _, x := range c.RegGrants {
			if x == g {
				return true
			}
		}
		return false
	}
	// (g) no tokens from the authorization endpoint without the implicit grant
	if at != "" && !hasGrant("implicit") {
		viol("C13/access-token-from-authorize-endpoint-without-implicit-grant/rt="+strings.ReplaceAll(c.RT, " ", "+"), "the authorization endpoint issued an access token to a client lacking the implicit grant", "refusal", o.Location)
		return
	}
	if idt != "" && !hasGrant("implicit") {
		if code == "" {
			// a purely implicit response (response_type id_token): the ID token is the token the client came for
			viol("C13/id-token-from-authorize-endpoint-without-implicit-grant/rt="+strings.ReplaceAll(c.RT, " ", "+"), "the authorization endpoint issued an ID token in an implicit response to a client lacking the implicit grant", "refusal", o.Location)
			return
		}
		res.DontCare++ // hybrid code+id_token: whether "tokens" includes this ID token is not decidable from the statement
	}
	// (h) a client lacking authorization_code can never turn a code into tokens
	if code != "" {
		to := w.Token(url.Values{"grant_type": {"authorization_code"}, "code": {code}, "redirect_uri": {"https://v.example/cb"}}, w.AuthFor("V"))
		res.Trans++
		if issued(to) && !hasGrant("authorization_code") {
			viol("C13/code-redeemed-without-authorization_code-grant", "a client lacking the authorization_code grant turned a code into tokens", "unauthorized_client", to.JSON)
			return
		}
	}
	// request objects
	if c.RO != "" {
		honoured := o.Param("state") == roState || strings.Contains(o.Param("scope"), "photos")
		if honoured {
			ok := false
			switch c.RO {
			case "rs256-registered", "uri-registered":
				ok = c.ROAlg == "" || c.ROAlg == "RS256"
			case "es256-registered":
				ok = c.ROAlg == "" || c.ROAlg == "ES256"
			case "ps256-registered":
				ok = c.ROAlg == "" || c.ROAlg == "PS256"
			case "none":
				ok = c.ROAlg == "none"
				if c.ROAlg == "" {
					res.DontCare++ // no algorithm registered: whether that permits unsigned objects is not pinned
					return
				}
			}
			if !ok {
				viol("C13/request-object-honoured/"+c.RO+"/registered-alg="+c.ROAlg, fmt.Sprintf("parameters from a request object (%s) were honoured although the client's registration (request_object_signing_alg=%q, keys rk/ek) does not cover it", c.RO, c.ROAlg), "invalid_request_object", o.Location)
			}
			res.note("request-object-honoured")
		}
	}
}

// c13JWKSURI: two clients whose jwks_uri differ only in the query string (a multi-tenant JWKS endpoint). After an
// ordinary request of tenant A, a request object for tenant B signed with A's key must still be refused.
func c13JWKSURI(variant string, res *WRes) {
	w := NewWorld(Profile{})
	docs := map[string]string{}
	mk := func(id, uri, key string) {
		base := w.AddClient(id, "secret-"+id, false)
		base.RedirectURIs = []string{"https://v.example/cb"}
		w.Mem.Clients[id] = &fosite.DefaultOpenIDConnectClient{DefaultClient: base, JSONWebKeysURI: uri, RequestObjectSigningAlgorithm: "RS256"}
		b, _ := json.Marshal(jwks(pubJWK(rsaKey(key), "rk", "RS256")))
		docs[uri] = string(b)
	}
	uriA, uriB := "https://jwks.example/keys?tenant=a", "https://jwks.example/keys?tenant=b"
	switch variant {
	case "path":
		uriA, uriB = "https://jwks.example/a/keys", "https://jwks.example/b/keys"
	case "fragment":
		uriA, uriB = "https://jwks.example/keys#a", "https://jwks.example/keys2#a"
	case "host-case":
		uriA, uriB = "https://jwks.example/keys", "https://JWKS.example/keys2"
	}
	mk("VA", uriA, "rsa1")
	mk("VB", uriB, "rsa2")
	hc := retryablehttp.NewClient()
	hc.RetryMax = 0
	hc.Logger = nil
	hc.HTTPClient.Transport = memRT{docs: docs}
	fs := fosite.NewDefaultJWKSFetcherStrategy(fosite.JWKSFetcherWithHTTPClient(hc))
	w.Cfg.JWKSFetcherStrategy = fs
	ro := func(client, key string) *Obs {
		claims := map[string]any{"iss": client, "aud": IssuerURL, "scope": "openid photos", "state": "ro-state-0123456789", "client_id": client, "response_type": "code", "redirect_uri": "https://v.example/cb"}
		p := url.Values{"client_id": {client}, "response_type": {"code"}, "scope": {"openid a"}, "state": {strOfLen(20)}, "nonce": {strOfLen(20)}, "redirect_uri": {"https://v.example/cb"},
			"request": {signJWT(rsaKey(key), "RS256", "rk", claims, nil)}}
		return w.Authorize(p, AuthzOpts{})
	}
	honoured := func(o *Obs) bool {
		return o.Param("code") != "" && (o.Param("state") == "ro-state-0123456789" || strings.Contains(o.Param("scope"), "photos"))
	}
	warm := ro("VA", "rsa1")
	if w, ok := fs.(interface{ WaitForCache() }); ok {
		w.WaitForCache()
	}
	res.Trans++
	if !honoured(warm) {
		res.note("sanity:jwks-uri-request-object-refused:" + warm.Class())
		return
	}
	res.note("request-object-honoured")
	for _, seq := range []string{"B-with-A-key", "B-with-A-key-again", "A-with-B-key"} {
		var o *Obs
		if seq == "A-with-B-key" {
			o = ro("VA", "rsa2")
		} else {
			o = ro("VB", "rsa1")
		}
		res.Trans++
		res.Evals++
		res.distinct("jwks-uri|" + variant + "|" + seq)
		if honoured(o) {
			res.violate(Violation{Property: "C13", Fingerprint: "C13/request-object-honoured/signed-with-another-clients-jwks_uri-key/" + variant, What: fmt.Sprintf("after an ordinary request of client VA, a request object (%s) signed with the other client's key was honoured; jwks_uri %q vs %q", seq, uriA, uriB), Engine: "c13jwks", Case: map[string]string{"variant": variant}, Expected: "invalid_request_object", Observed: o.Location})
		}
	}
	if ok := ro("VB", "rsa2"); honoured(ok) {
		res.note("jwks-uri-own-key-honoured")
	}
}

type c13Job struct {
	Group string
	Shard int
}

var c13RTSets = [][]string{{"code"}, {"token"}, {"id_token"}, {"code", "token"}, {"code id_token"}, {"id_token token"}, {"code id_token token", "code"}, {"code", "token", "id_token", "id_token token", "code id_token", "code token", "code id_token token"}}
var c13GrantSets = [][]string{{"authorization_code", "implicit", "refresh_token"}, {"authorization_code", "refresh_token"}, {"implicit"}, {"client_credentials"}}
var c13AllRT = []string{"code", "token", "id_token", "id_token token", "code id_token", "code token", "code id_token token"}

func c13Requested() []string {
	alpha := []string{"code", "token", "id_token", "bogus", "Token"}
	out := []string{""}
	for _, a := range alpha {
		out = append(out, a)
		for _, b := range alpha {
			out = append(out, a+" "+b)
			for _, c := range alpha {
				out = append(out, a+" "+b+" "+c)
			}
		}
	}
	return out
}

func c13Cases(group string) []c13Case {
	var cs []c13Case
	all := c13RTSets[len(c13RTSets)-1]
	allG := c13GrantSets[0]
	okState, okNonce := strOfLen(20), strOfLen(20)
	switch group {
	case "G1-response-types":
		for _, rs := range c13RTSets {
			for _, gs := range c13GrantSets {
				for _, pub := range []bool{false, true} {
					for _, rt := range c13Requested() {
						for _, sc := range []string{"a", "openid a"} {
							cs = append(cs, c13Case{Group: group, RegRT: rs, RegGrants: gs, Public: pub, URIs: 1, RT: rt, State: okState, Nonce: okNonce, Scope: sc})
						}
					}
				}
			}
		}
		cs = append(cs, c13Case{Group: group, RegRT: all, RegGrants: allG, URIs: 1, RT: "code", State: okState, Nonce: okNonce, Scope: "a", ClientID: "nobody"})
	case "G2-response-modes":
		for _, rm := range [][]string{nil, {}, {"query"}, {"fragment"}, {"form_post"}, {"query", "fragment", "form_post"}} {
			for _, m := range []string{"", "query", "fragment", "form_post", "bogus"} {
				for _, rt := range c13AllRT {
					for _, sc := range []string{"a", "openid a"} {
						cs = append(cs, c13Case{Group: group, RegRT: all, RegGrants: allG, RegModes: rm, URIs: 1, RT: rt, Mode: m, State: okState, Nonce: okNonce, Scope: sc})
						cs = append(cs, c13Case{Group: group, RegRT: all, RegGrants: allG, RegModes: rm, URIs: 1, RT: rt, Mode: m, State: okState, Nonce: okNonce, Scope: sc, ViaPAR: "mode-pushed"})
						cs = append(cs, c13Case{Group: group, RegRT: all, RegGrants: allG, RegModes: rm, URIs: 1, RT: rt, Mode: m, State: okState, Nonce: okNonce, Scope: sc, ViaPAR: "mode-added"})
						if len(rm) == 3 {
							cs = append(cs, c13Case{Group: group, RegRT: all, RegGrants: allG, RegModes: rm, URIs: 1, RT: rt, Mode: m, State: okState, Nonce: okNonce, Scope: sc, RegQuery: true})
						}
					}
				}
			}
		}
	case "G3-state-nonce":
		for _, me := range []int{0, 12} {
			for _, st := range []string{"-", "", strOfLen(7), strOfLen(8), strOfLen(11), strOfLen(12), strOfLen(20)} {
				for _, no := range []string{"-", "", strOfLen(7), strOfLen(8), strOfLen(11), strOfLen(12), strOfLen(20)} {
					for _, rt := range c13AllRT {
						for _, sc := range []string{"a", "openid a"} {
							cs = append(cs, c13Case{Group: group, RegRT: all, RegGrants: allG, URIs: 1, RT: rt, State: st, Nonce: no, Scope: sc, MinEnt: me})
						}
					}
				}
			}
		}
	case "G4-redirect-uri":
		for _, uris := range []int{1, 2} {
			for _, nr := range []bool{false, true} {
				for _, sc := range []string{"a", "openid a", "openid"} {
					for _, rt := range c13AllRT {
						for _, gs := range c13GrantSets {
							cs = append(cs, c13Case{Group: group, RegRT: all, RegGrants: gs, URIs: uris, RT: rt, State: okState, Nonce: okNonce, Scope: sc, NoRedir: nr})
						}
					}
				}
			}
		}
	case "G7-cross":
		// cross terms of G1..G4: response type x response mode x state x nonce x scope x grants on three registrations
		for _, rs := range [][]string{all, {"code"}, {"code id_token token", "code"}} {
			for _, gs := range [][]string{allG, {"authorization_code", "refresh_token"}} {
				for _, rt := range c13Requested() {
					for _, m := range []string{"", "query", "fragment", "form_post"} {
						for _, st := range []string{strOfLen(7), strOfLen(8)} {
							for _, no := range []string{"-", strOfLen(7), strOfLen(8)} {
								for _, sc := range []string{"a", "openid a"} {
									for _, nr := range []bool{false, true} {
										cs = append(cs, c13Case{Group: group, RegRT: rs, RegGrants: gs, RegModes: []string{"query", "fragment", "form_post"}, URIs: 1, RT: rt, Mode: m, State: st, Nonce: no, Scope: sc, NoRedir: nr})
									}
								}
							}
						}
					}
				}
			}
		}
	case "G5-request-objects":
		for _, ro := range []string{"rs256-registered", "es256-registered", "ps256-registered", "rs256-other-key", "rs256-unknown-kid", "es256-other-key", "none", "hs256-client-secret", "hs256-public-key", "rs256-tampered", "uri-registered", "uri-unregistered", "uri-fetch-fails", "both", "uri-case-variant", "uri-trailing-slash", "uri-with-query", "rs256-expired", "rs256-not-yet-valid"} {
			for _, alg := range []string{"", "RS256", "ES256", "PS256", "none", "HS256"} {
				for _, rt := range []string{"code", "code id_token", "id_token"} {
					for _, sc := range []string{"openid a", "a"} {
						cs = append(cs, c13Case{Group: group, RegRT: all, RegGrants: allG, URIs: 1, RT: rt, State: okState, Nonce: okNonce, Scope: sc, RO: ro, ROAlg: alg})
					}
				}
			}
		}
	}
	return cs
}

var c13Groups = []string{"G1-response-types", "G2-response-modes", "G3-state-nonce", "G4-redirect-uri", "G5-request-objects", "G6-jwks-uri", "G7-cross"}

func init() {
	registerWorker("c13", func(arg json.RawMessage) (any, error) {
		var j c13Job
		if err := json.Unmarshal(arg, &j); err != nil {
			return nil, err
		}
		res := &WRes{}
		if j.Group == "G6-jwks-uri" {
			if j.Shard == 0 {
				for _, v := range []string{"query", "path", "fragment", "host-case"} {
					c13JWKSURI(v, res)
				}
				res.sample("two clients with look-alike jwks_uri values; warm-up request of A, then request objects for B signed with A's key")
			}
			return res, nil
		}
		for i, c := range c13Cases(j.Group) {
			if i%16 != j.Shard {
				continue
			}
			n := len(res.Viol)
			c13Run(c, res)
			res.Evals++
			if len(res.Viol) == n {
				res.sample(c)
			}
		}
		return res, nil
	})
	replayFns["c13jwks"] = func(raw json.RawMessage) ([]Violation, error) {
		var c struct{ Variant string }
		if err := json.Unmarshal(raw, &c); err != nil {
			return nil, err
		}
		res := &WRes{}
		c13JWKSURI(c.Variant, res)
		return res.Viol, nil
	}
	replayFns["c13"] = func(raw json.RawMessage) ([]Violation, error) {
		var c c13Case
		if err := json.Unmarshal(raw, &c); err != nil {
			return nil, err
		}
		res := &WRes{}
		c13Run(c, res)
		return res.Viol, nil
	}
	registerCheck("C13", "exploration", 120*time.Second, 20*time.Minute, func(r *Run) {
		var jobs []any
		sizes := map[string]int{}
		for _, g := range c13Groups {
			sizes[g] = len(c13Cases(g))
			for s := 0; s < 16; s++ {
				jobs = append(jobs, c13Job{Group: g, Shard: s})
			}
		}
		r.Bounds = map[string]any{"groups": sizes, "G1": "8 registered response-type sets x 4 grant sets x public x all ordered response_type lists of <=3 tokens over {code,token,id_token,bogus} (incl. duplicates, empty) x scope{a, openid a}",
			"G2": "6 response-mode registrations x 5 requested modes x 7 response types x openid x {direct, pushed, pushed with response_mode appended to the request_uri leg}", "G3": "MinParameterEntropy{8,12} x 7 state values x 7 nonce values x 7 response types x openid",
			"G4": "1|2 registered URIs x redirect_uri present/absent x 3 scopes x 7 response types x 4 grant sets", "G5": "17 request-object variants (incl. request_uri strings that differ from the registered one in case, a trailing slash or a query) x 6 registered algorithms x 3 response types x openid", "G7": "cross terms: 3 registrations x 2 grant sets x every response_type list x 4 modes x state{7,8} x nonce{-,7,8} x openid x redirect_uri present/absent", "G6": "request objects verified through jwks_uri (in-memory transport, real DefaultJWKSFetcherStrategy and cache): 4 look-alike URI pairs x 3 cross-client presentations after a warm-up"}
		r.Rule = "each group is a full product, every case is sent to the real authorization endpoint of a fresh provider; an accepted request must satisfy every listed condition (one-sided), tokens never appear in the query, state is echoed on every redirect, issued codes are carried to the token endpoint; G7 covers the cross terms of G1-G4 on three registrations; distinct = distinct accepted cases"
		r.Assumptions = []string{"hybrid code+id_token without the implicit grant (ID token only) and unsigned request objects for a client with no registered algorithm are don't-care", "request_uri documents are served by an in-memory HTTP transport"}
		res := r.Pool.Do("c13", jobs, r.Deadline)
		if !r.MergeJobs(res) {
			r.Exhaustive = false
		}
		if r.Agg.Notes["request-object-honoured"] == 0 {
			r.HarnessErrs = append(r.HarnessErrs, "vacuous: no request object was ever honoured")
		}
	})
}
