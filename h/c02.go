package main

import (
	"encoding/json"
	"fmt"
	"net/url"
	"sort"
	"strings"
	"time"
)

// C02 — a code is bound to client, redirect_uri and lifetime; the grant is immutable.
// Exhaustive product: owner x carried-redirect x flow x history position x presenter x
// redirect_uri form x smuggled parameters x code age; each attempt is followed by the
// legitimate redemption and a payload comparison.

type c02Case struct {
	Owner    string `json:"owner"`    // A | P | S (single registered redirect URI, none sent) | SP (public, single)
	Flow     string `json:"flow"`     // code | oidc | hyb-idt
	Position string `json:"position"` // fresh | after-other-grant | after-refresh-chain | after-revocation
	Present  string `json:"presenter"`
	Redir    string `json:"redir"`
	Smuggle  string `json:"smuggle"`
	Age      string `json:"age"`
	JWT      bool   `json:"jwt,omitempty"`
}

var (
	c02Owners     = []string{"A", "P", "S", "SP"}
	c02Flows      = []string{"code", "oidc", "hyb-idt", "par", "par-extra-redirect", "dup-redirect-param", "code-noscope"}
	c02Positions  = []string{"fresh", "after-other-grant", "after-refresh-chain", "after-revocation"}
	c02Presenters = []string{"owner", "foreign-confidential", "foreign-public", "owner-wrong-secret"}
	c02Redirs     = []string{"equal", "absent", "other-registered", "percent-encoded", "host-case", "trailing-slash", "with-fragment", "unregistered", "query-added"}
	c02Smuggles   = []string{"none", "scope-admin", "scope-wider", "audience-other", "scope-narrower", "client_id-other", "partial-consent", "nothing-granted"}
	c02Ages       = []string{"0", "L-5", "L+5", "2L"}
)

const c02L = 600 // code lifetime, seconds

func c02Run(c c02Case, res *WRes) {
	w := NewWorld(Profile{JWTAccess: c.JWT, CodeLifespan: c02L})
	s := w.AddClient("S", "secret-S", false)
	s.RedirectURIs = []string{"https://S.example/cb"}
	sp := w.AddClient("SP", "", true)
	sp.RedirectURIs = []string{"https://SP.example/cb"}
	w.AddClient("P2", "", true)
	carried := c.Owner == "A" || c.Owner == "P"
	viol := func(fp, what, exp string, obs any) {
		res.violate(Violation{Property: "C02", Fingerprint: fp, What: what, Engine: "c02", Case: c, Expected: exp, Observed: obs})
	}
	// history position
	switch c.Position {
	case "after-other-grant":
		o := w.Authorize(url.Values{"client_id": {"B"}, "redirect_uri": {"https://B.example/cb"}, "state": {"state-12345678"}, "response_type": {"code"}, "scope": {"offline a"}}, AuthzOpts{Subject: "user-9"})
		w.Token(url.Values{"grant_type": {"authorization_code"}, "code": {o.Param("code")}, "redirect_uri": {"https://B.example/cb"}}, w.AuthFor("B"))
	case "after-refresh-chain":
		o := w.Token(url.Values{"grant_type": {"password"}, "username": {"peter"}, "password": {"pw-peter"}, "scope": {"offline a"}}, w.AuthFor("B"))
		o = w.Token(url.Values{"grant_type": {"refresh_token"}, "refresh_token": {o.Str("refresh_token")}}, w.AuthFor("B"))
		w.Token(url.Values{"grant_type": {"refresh_token"}, "refresh_token": {o.Str("refresh_token")}}, w.AuthFor("B"))
	case "after-revocation":
		o := w.Token(url.Values{"grant_type": {"password"}, "username": {"peter"}, "password": {"pw-peter"}, "scope": {"offline a"}}, w.AuthFor("B"))
		w.Revoke(o.Str("access_token"), "", w.AuthFor("B"))
	}
	regURI := "https://" + c.Owner + ".example/cb"
	dupOther := ""
	params := url.Values{"client_id": {c.Owner}, "state": {"state-12345678"}, "response_type": {"code"}, "scope": {"offline a"}, "audience": {"https://api.example/a"}}
	if carried {
		params.Set("redirect_uri", regURI)
	}
	granted := []string{"offline", "a"}
	wantAud := []string{"https://api.example/a"}
	switch c.Flow {
	case "code-noscope":
		// the authorization asks for (and is granted) no scope and no audience, and the token endpoint belongs to an
		// integrator that grants whatever the access request says was requested: a smuggled scope/audience must not
		// become "requested"
		params.Del("scope")
		params.Del("audience")
		granted = []string{}
		wantAud = []string{}
	case "oidc":
		params.Set("scope", "openid offline a")
		params.Set("nonce", "nonce-12345678")
		granted = []string{"openid", "offline", "a"}
		params.Set("redirect_uri", regURI) // OIDC requires it
		carried = true
	case "hyb-idt":
		params.Set("scope", "openid offline a")
		params.Set("nonce", "nonce-12345678")
		params.Set("response_type", "code id_token")
		granted = []string{"openid", "offline", "a"}
		params.Set("redirect_uri", regURI)
		carried = true
	}
	opts := AuthzOpts{Subject: "user-1"}
	if c.Smuggle == "partial-consent" && c.Flow == "code-noscope" {
		return // nothing is requested in this flow, so there is nothing to consent to partially
	}
	if c.Smuggle == "partial-consent" {
		// the client asks for more than the resource owner grants
		params.Set("scope", params.Get("scope")+" photos")
		params.Set("audience", "https://api.example/a https://other.example")
		opts.GrantScopes = func(req []string) []string { return without(req, "photos") }
		opts.GrantAud = func(req []string) []string { return without(req, "https://other.example") }
	}
	if c.Smuggle == "nothing-granted" {
		if c.Flow == "code-noscope" {
			return
		}
		// scopes and an audience are requested, the resource owner grants none of them
		opts.GrantScopes = func([]string) []string { return nil }
		opts.GrantAud = func([]string) []string { return nil }
		granted = []string{}
		wantAud = []string{}
	}
	var ao *Obs
	if c.Flow == "dup-redirect-param" {
		// redirect_uri is sent twice, naming two different registered URIs: whichever the server delivers the code
		// to is the one the code must be bound to
		if !carried {
			return
		}
		params["redirect_uri"] = []string{regURI, "https://" + c.Owner + ".example/cb2"}
		ao = w.Authorize(params, opts)
		switch {
		case strings.HasPrefix(ao.Location, "https://"+c.Owner+".example/cb2?"):
			regURI = "https://" + c.Owner + ".example/cb2"
			dupOther = "https://" + c.Owner + ".example/cb"
		case strings.HasPrefix(ao.Location, regURI+"?"):
			dupOther = "https://" + c.Owner + ".example/cb2"
		}
	} else if strings.HasPrefix(c.Flow, "par") {
		// the authorization request is pushed; the front channel carries client_id + request_uri only
		// (par-extra-redirect: plus another registered redirect_uri, which must not re-bind the code)
		po := w.PAR(params, w.AuthFor(c.Owner))
		ru := po.Str("request_uri")
		if ru == "" {
			res.note("sanity:push-refused:" + c.Owner + ":" + po.Class())
			return
		}
		q := url.Values{"client_id": {c.Owner}, "request_uri": {ru}}
		if c.Flow == "par-extra-redirect" {
			if !carried {
				return // nothing was pushed to be shadowed: adding a parameter that was not pushed is not pinned (C17)
			}
			q.Set("redirect_uri", "https://"+c.Owner+".example/cb2")
		}
		ao = w.Authorize(q, opts)
		if loc := ao.Location; ao.Param("code") != "" && carried && !strings.HasPrefix(loc, regURI+"?") {
			res.note("par-redirect-target-differs-from-pushed")
		}
	} else {
		ao = w.Authorize(params, opts)
	}
	code := ao.Param("code")
	if code == "" {
		res.note("sanity:authorize-refused:" + c.Owner + "/" + c.Flow + ":" + ao.Class())
		return
	}
	// age
	switch c.Age {
	case "L-5":
		w.Advance((c02L - 5) * time.Second)
	case "L+5":
		w.Advance((c02L + 5) * time.Second)
	case "2L":
		w.Advance(2 * c02L * time.Second)
	}
	expired := c.Age == "L+5" || c.Age == "2L"
	// the attempt
	form := url.Values{"grant_type": {"authorization_code"}, "code": {code}}
	sameRedirect := false
	switch c.Redir {
	case "equal":
		form.Set("redirect_uri", regURI)
		sameRedirect = true
	case "absent":
	case "other-registered":
		form.Set("redirect_uri", "https://"+c.Owner+".example/cb2")
		if dupOther != "" {
			form.Set("redirect_uri", dupOther)
		}
	case "percent-encoded":
		form.Set("redirect_uri", "https://"+c.Owner+".example/%63b")
	case "host-case":
		form.Set("redirect_uri", "https://"+strings.ToLower(c.Owner)+".EXAMPLE/cb")
	case "trailing-slash":
		form.Set("redirect_uri", regURI+"/")
	case "with-fragment":
		form.Set("redirect_uri", regURI+"#x")
	case "unregistered":
		form.Set("redirect_uri", "https://evil.example/cb")
	case "query-added":
		form.Set("redirect_uri", regURI+"?env=staging")
	}
	switch c.Smuggle {
	case "scope-admin":
		form.Set("scope", "admin")
	case "scope-wider":
		form.Set("scope", "offline a b.c photos openid")
	case "audience-other":
		form.Set("audience", "https://other.example")
	case "scope-narrower":
		form.Set("scope", "a")
	case "client_id-other":
		// a body client_id that differs from the authenticated client (only meaningful with Basic auth)
	}
	var auth Auth
	ownerPublic := c.Owner == "P" || c.Owner == "SP"
	switch c.Present {
	case "owner":
		auth = w.AuthFor(c.Owner)
	case "foreign-confidential":
		auth = w.AuthFor("B")
	case "foreign-public":
		auth = w.AuthFor("P2")
	case "owner-wrong-secret":
		if ownerPublic {
			auth = BasicAuth("A", "wrong")
		} else {
			auth = BasicAuth(c.Owner, "wrong")
		}
	}
	if c.Smuggle == "client_id-other" && auth.Mode == "basic" {
		// a body client_id naming a different client than the one authenticated in the header
		other := "B"
		if c.Present == "foreign-confidential" {
			other = c.Owner
		}
		auth.Extra = url.Values{"client_id": {other}}
	}
	before := w.StateKey()
	topt := TokenOpts{GrantAll: true, GrantRequested: c.Flow == "code-noscope"}
	o := w.TokenWith(form, auth, topt)
	res.Trans++
	got := issued(o)
	mayIssue := c.Present == "owner" && (!carried || sameRedirect) && !expired
	res.class(fmt.Sprintf("%s/%s/%s:%s", c.Present, c.Redir, map[bool]string{true: "expired", false: "fresh"}[expired], o.Class()))
	if got && !mayIssue {
		why := "presenter=" + c.Present
		if c.Present == "owner" {
			why = "redirect_uri=" + c.Redir
			if expired {
				why = "expired"
			}
		}
		viol("C02/issued-on-forbidden-attempt/"+why, fmt.Sprintf("token endpoint issued tokens for an attempt that must be refused (%s; carried redirect_uri=%v)", why, carried), "refusal", o)
		return
	}
	if !got {
		if c.Present == "foreign-confidential" || c.Present == "foreign-public" || (c.Present == "owner" && carried && !sameRedirect) {
			if o.Err != "invalid_grant" && !expired {
				viol("C02/refusal-not-invalid_grant/"+c.Present+"/redir="+c.Redir+"/got="+o.Err, "a foreign-client or different-redirect_uri attempt was not refused with invalid_grant", "invalid_grant", o)
			}
		}
		if w.StateKey() != before {
			viol("C02/refused-attempt-changed-state/"+c.Present+"/redir="+c.Redir, "a refused redemption attempt changed stored code/token state", "unchanged store", nil)
		}
		if mayIssue {
			res.note("sanity:legit-attempt-refused")
		}
		// the rightful holder can still use the code
		lo := w.TokenWith(url.Values{"grant_type": {"authorization_code"}, "code": {code}, "redirect_uri": {regURI}}, w.AuthFor(c.Owner), topt)
		res.Trans++
		if expired {
			if issued(lo) {
				viol("C02/expired-code-redeemed", "an expired code was redeemed by its holder", "refusal", lo)
			}
			return
		}
		if !issued(lo) {
			viol("C02/code-unusable-after-refused-attempt/"+c.Present+"/redir="+c.Redir, fmt.Sprintf("after a refused attempt (%s, redirect_uri %s) the rightful holder could no longer redeem the unexpired code: %s", c.Present, c.Redir, lo.GoErr), "tokens", lo)
			return
		}
		o = lo
	}
	// payload: exactly what was granted at the authorization endpoint
	at := o.Str("access_token")
	_, io := w.Active(at)
	res.Trans++
	gs := strings.Fields(io.Str("scope"))
	sort.Strings(gs)
	want := append([]string(nil), granted...)
	sort.Strings(want)
	if strings.Join(gs, " ") != strings.Join(want, " ") {
		viol("C02/token-scope-differs-from-grant/smuggle="+c.Smuggle, fmt.Sprintf("access token carries scope %v, granted at authorization %v (token request smuggled %s)", gs, want, c.Smuggle), strings.Join(want, " "), io.JSON)
	}
	if rs := strings.Fields(o.Str("scope")); len(rs) > 0 {
		sort.Strings(rs)
		if strings.Join(rs, " ") != strings.Join(want, " ") {
			viol("C02/response-scope-differs-from-grant/smuggle="+c.Smuggle, fmt.Sprintf("token response advertises scope %v, granted %v", rs, want), strings.Join(want, " "), o.JSON)
		}
	}
	aud, _ := io.JSON["aud"].([]any)
	if len(aud) != len(wantAud) || (len(aud) == 1 && aud[0] != wantAud[0]) {
		viol("C02/token-audience-differs-from-grant/smuggle="+c.Smuggle, fmt.Sprintf("access token carries audience %v, granted %v", aud, wantAud), fmt.Sprint(wantAud), io.JSON)
	}
	// a JWT access token names scope and audience itself: they must be the granted ones as well
	if js, ja, isJWT := jwtAccessClaims(at); isJWT {
		if strings.Join(js, " ") != strings.Join(want, " ") {
			viol("C02/jwt-token-scope-differs-from-grant/smuggle="+c.Smuggle, fmt.Sprintf("the JWT access token names scope %v, granted at authorization %v", js, want), strings.Join(want, " "), js)
		}
		if strings.Join(ja, " ") != strings.Join(wantAud, " ") {
			viol("C02/jwt-token-audience-differs-from-grant/smuggle="+c.Smuggle, fmt.Sprintf("the JWT access token names audience %v, granted %v", ja, wantAud), strings.Join(wantAud, " "), ja)
		}
	}
	if io.Str("sub") != "user-1" {
		viol("C02/token-subject-differs-from-grant", fmt.Sprintf("access token carries subject %q, granted user-1", io.Str("sub")), "user-1", io.JSON)
	}
	if io.Str("client_id") != c.Owner {
		viol("C02/token-client-differs-from-grant", fmt.Sprintf("access token carries client %q, code was issued to %s", io.Str("client_id"), c.Owner), c.Owner, io.JSON)
	}
	if rt := o.Str("refresh_token"); rt != "" {
		_, ro := w.Active(rt)
		rs := strings.Fields(ro.Str("scope"))
		sort.Strings(rs)
		if strings.Join(rs, " ") != strings.Join(want, " ") {
			viol("C02/refresh-token-scope-differs-from-grant/smuggle="+c.Smuggle, fmt.Sprintf("refresh token carries scope %v, granted %v", rs, want), strings.Join(want, " "), ro.JSON)
		}
	}
	res.note("payload-checked")
}

type c02Job struct {
	Owner, Flow, Position string
	JWT                   bool
}

func init() {
	registerWorker("c02", func(arg json.RawMessage) (any, error) {
		var j c02Job
		if err := json.Unmarshal(arg, &j); err != nil {
			return nil, err
		}
		res := &WRes{}
		for _, pr := range c02Presenters {
			for _, rd := range c02Redirs {
				for _, sm := range c02Smuggles {
					for _, ag := range c02Ages {
						c := c02Case{Owner: j.Owner, Flow: j.Flow, Position: j.Position, JWT: j.JWT, Present: pr, Redir: rd, Smuggle: sm, Age: ag}
						n := len(res.Viol)
						c02Run(c, res)
						res.Evals++
						res.States++
						res.Traces++
						res.distinct(fmt.Sprintf("%+v", c))
						if len(res.Viol) == n {
							res.sample(c)
						}
					}
				}
			}
		}
		return res, nil
	})
	replayFns["c02"] = func(raw json.RawMessage) ([]Violation, error) {
		var c c02Case
		if err := json.Unmarshal(raw, &c); err != nil {
			return nil, err
		}
		res := &WRes{}
		c02Run(c, res)
		return res.Viol, nil
	}
	registerCheck("C02", "exploration", 120*time.Second, 20*time.Minute, func(r *Run) {
		var jobs []any
		for _, ow := range c02Owners {
			for _, fl := range c02Flows {
				for _, po := range c02Positions {
					for _, jwt := range []bool{false, true} {
						if r.Quick() && jwt && po != "fresh" {
							continue
						}
						jobs = append(jobs, c02Job{Owner: ow, Flow: fl, Position: po, JWT: jwt})
					}
				}
			}
		}
		r.Bounds = map[string]any{"owners": c02Owners, "flows": c02Flows, "positions": c02Positions, "presenters": c02Presenters, "redirect_uri_forms": c02Redirs, "smuggled": c02Smuggles, "ages": c02Ages, "code_lifetime_s": c02L}
		r.Rule = "full product owner x flow x history position x strategy x presenter x redirect_uri form x smuggled parameter x code age; every case runs authorize -> attempt -> (legitimate redemption) -> introspection on a fresh provider; distinct = distinct tuples"
		r.Assumptions = []string{"an attempt may yield tokens only if presenter = issuing client, the redirect_uri is string-equal to the one sent at authorization (when one was sent) and the code is unexpired (ages are 5 s away from the expiry instant)",
			"a refused attempt must leave the store dump unchanged and the code redeemable by its holder"}
		res := r.Pool.Do("c02", jobs, r.Deadline)
		if !r.MergeJobs(res) {
			r.Exhaustive = false
		}
		if r.Agg.Notes["payload-checked"] == 0 {
			r.HarnessErrs = append(r.HarnessErrs, "vacuous: no redemption succeeded")
		}
	})
}
