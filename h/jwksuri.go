package main

import (
	"encoding/json"
	"fmt"
	"net/url"

	"github.com/hashicorp/go-retryablehttp"
	"github.com/ory/fosite"
)

// Client assertions verified through jwks_uri with the real DefaultJWKSFetcherStrategy and its cache (in-memory
// transport). Two private_key_jwt clients whose jwks_uri values look alike: after any history of legitimate
// authentications, an assertion naming one client but signed with the other client's key must be refused.
// Used by C10 (a request is processed in the name of a client only if it proves that client's key) and C15.

type jwksURICase struct {
	Prop    string   `json:"property"`
	Variant string   `json:"variant"`
	Warm    []string `json:"warm_up"` // legitimate authentications before the attack: "A", "B"
}

var jwksURIVariants = []string{"query", "path", "fragment", "host-case", "port", "trailing-slash"}
var jwksURIWarmups = [][]string{{}, {"A"}, {"B"}, {"A", "B"}, {"B", "A"}, {"A", "A"}}

func jwksURIRun(c jwksURICase, res *WRes) {
	w := NewWorld(Profile{})
	docs := map[string]string{}
	uriA, uriB := "https://jwks.example/keys?tenant=a", "https://jwks.example/keys?tenant=b"
	switch c.Variant {
	case "path":
		uriA, uriB = "https://jwks.example/a/keys", "https://jwks.example/b/keys"
	case "fragment":
		uriA, uriB = "https://jwks.example/keys#a", "https://jwks.example/keys2#a"
	case "host-case":
		uriA, uriB = "https://jwks.example/keys", "https://JWKS.example/keys2"
	case "port":
		uriA, uriB = "https://jwks.example/keys", "https://jwks.example:8443/keys"
	case "trailing-slash":
		uriA, uriB = "https://jwks.example/keys", "https://jwks.example/keys/"
	}
	keys := map[string]string{"A": "ec256a", "B": "ec256b"}
	mk := func(id, uri, key string) {
		base := w.AddClient(id, "", false)
		base.Secret = nil
		w.Mem.Clients[id] = &fosite.DefaultOpenIDConnectClient{DefaultClient: base, JSONWebKeysURI: uri, TokenEndpointAuthMethod: "private_key_jwt", TokenEndpointAuthSigningAlgorithm: "ES256"}
		b, _ := json.Marshal(jwks(pubJWK(ecKey(key), "ck", "ES256")))
		docs[uri] = string(b)
	}
	mk("JA", uriA, keys["A"])
	mk("JB", uriB, keys["B"])
	hc := retryablehttp.NewClient()
	hc.RetryMax = 0
	hc.Logger = nil
	hc.HTTPClient.Transport = memRT{docs: docs}
	fs := fosite.NewDefaultJWKSFetcherStrategy(fosite.JWKSFetcherWithHTTPClient(hc))
	w.Cfg.JWKSFetcherStrategy = fs
	n := 0
	present := func(client, key string) *Obs {
		n++
		now := w.Now()
		as := signJWT(ecKey(key), "ES256", "ck", map[string]any{"iss": client, "sub": client, "aud": TokenURL, "exp": now.Add(5 * 60 * 1e9).Unix(), "iat": now.Unix(), "jti": fmt.Sprintf("jti-jwksuri-%d", n)}, nil)
		o := w.Token(url.Values{"grant_type": {"client_credentials"}, "scope": {"a"}}, Auth{Mode: "omit", Extra: url.Values{"client_assertion_type": {"urn:ietf:params:oauth:client-assertion-type:jwt-bearer"}, "client_assertion": {as}}})
		if wc, ok := fs.(interface{ WaitForCache() }); ok {
			wc.WaitForCache()
		}
		res.Trans++
		return o
	}
	for _, who := range c.Warm {
		if o := present("J"+who, keys[who]); !issued(o) {
			res.note("sanity:jwks-uri-client-assertion-refused:" + o.Class())
			return
		}
		res.note("accepted")
	}
	for _, att := range [][2]string{{"JB", "A"}, {"JB", "A"}, {"JA", "B"}, {"JA", "B"}} {
		o := present(att[0], keys[att[1]])
		res.Evals++
		res.distinct(fmt.Sprintf("jwksuri|%s|%s|%v|%s<-%s", c.Prop, c.Variant, c.Warm, att[0], att[1]))
		res.class("jwks-uri:foreign-key:" + o.Class())
		if issued(o) {
			res.violate(Violation{Property: c.Prop, Fingerprint: fmt.Sprintf("%s/client-assertion-accepted/signed-with-another-clients-jwks_uri-key/%s", c.Prop, c.Variant),
				What:   fmt.Sprintf("after legitimate authentications %v, a client assertion naming %s but signed with client %s's key was accepted; jwks_uri %q vs %q", c.Warm, att[0], att[1], uriA, uriB),
				Engine: "jwksuri", Case: c, Expected: "invalid_client", Observed: o.JSON})
			return
		}
	}
	for _, who := range []string{"A", "B"} {
		if o := present("J"+who, keys[who]); issued(o) {
			res.note("accepted")
		} else {
			res.note("sanity:jwks-uri-own-key-refused-after-attack:" + o.Class())
		}
	}
}

func jwksURIAll(prop string, res *WRes) {
	for _, v := range jwksURIVariants {
		for _, wu := range jwksURIWarmups {
			c := jwksURICase{Prop: prop, Variant: v, Warm: wu}
			n := len(res.Viol)
			jwksURIRun(c, res)
			if len(res.Viol) == n {
				res.sample(c)
			}
		}
	}
}

func init() {
	replayFns["jwksuri"] = func(raw json.RawMessage) ([]Violation, error) {
		var c jwksURICase
		if err := json.Unmarshal(raw, &c); err != nil {
			return nil, err
		}
		res := &WRes{}
		jwksURIRun(c, res)
		return res.Viol, nil
	}
}
