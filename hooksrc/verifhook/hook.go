// Package verifhook is injected into github.com/ory/fosite at build time through
// `go build -overlay` (see /verif/cmd/mkoverlay). With no explorer attached every
// hook is the identity: real time, no-op access notifications.
package verifhook

import "time"

// NowFn, when non-nil, is the virtual clock.
var NowFn func() time.Time

// AccessFn, when non-nil, receives every instrumented field access.
var AccessFn func(obj any, field string, write bool)

func Now() time.Time {
	if f := NowFn; f != nil {
		return f()
	}
	return time.Now()
}

func Since(t time.Time) time.Duration { return Now().Sub(t) }
func Until(t time.Time) time.Duration { return t.Sub(Now()) }

func Access(obj any, field string, write bool) {
	if f := AccessFn; f != nil {
		f(obj, field, write)
	}
}
