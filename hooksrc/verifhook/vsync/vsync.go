// Package vsync replaces "sync" in the files of ory/fosite that use locks (build-time
// overlay). Without an attached scheduler it delegates to the real sync package.
package vsync

import (
	"sync"
	"unsafe"
)

// Op kinds passed to Hook.
const (
	OpLock = iota
	OpUnlock
	OpRLock
	OpRUnlock
)

// Hook, when non-nil, owns all lock semantics (cooperative scheduler: exactly one
// goroutine runs at a time, so no real lock is needed). It must return only when the
// calling logical thread holds (or has released) the lock.
var Hook func(lock unsafe.Pointer, rw bool, op int)

type Mutex struct{ real sync.Mutex }

func (m *Mutex) Lock() {
	if h := Hook; h != nil {
		h(unsafe.Pointer(m), false, OpLock)
		return
	}
	m.real.Lock()
}
func (m *Mutex) Unlock() {
	if h := Hook; h != nil {
		h(unsafe.Pointer(m), false, OpUnlock)
		return
	}
	m.real.Unlock()
}
func (m *Mutex) TryLock() bool { panic("vsync: TryLock not modelled") }

type RWMutex struct{ real sync.RWMutex }

func (m *RWMutex) Lock() {
	if h := Hook; h != nil {
		h(unsafe.Pointer(m), true, OpLock)
		return
	}
	m.real.Lock()
}
func (m *RWMutex) Unlock() {
	if h := Hook; h != nil {
		h(unsafe.Pointer(m), true, OpUnlock)
		return
	}
	m.real.Unlock()
}
func (m *RWMutex) RLock() {
	if h := Hook; h != nil {
		h(unsafe.Pointer(m), true, OpRLock)
		return
	}
	m.real.RLock()
}
func (m *RWMutex) RUnlock() {
	if h := Hook; h != nil {
		h(unsafe.Pointer(m), true, OpRUnlock)
		return
	}
	m.real.RUnlock()
}

type (
	Locker    = sync.Locker
	WaitGroup = sync.WaitGroup
	Once      = sync.Once
	Pool      = sync.Pool
	Map       = sync.Map
	Cond      = sync.Cond
)
