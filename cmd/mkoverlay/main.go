// mkoverlay generates a `go build -overlay` description that instruments the CURRENT
// working tree of ory/fosite (default /repo) without touching it:
//
//	clock   time.Now / time.Since / time.Until      -> verifhook.Now / Since / Until
//	sync    import "sync"                          -> verifhook/vsync (scheduler-aware locks)
//	access  r.F inside pointer-receiver methods     -> verifhook.Access(r,"T.F",isWrite) before the statement
//
// All rewrites are textual edits at AST positions that keep line numbers intact. A file
// that does not parse aborts the run (never a silent skip).
package main

import (
	"encoding/json"
	"flag"
	"fmt"
	"go/ast"
	"go/parser"
	"go/token"
	"os"
	"path/filepath"
	"sort"
	"strings"
)

const hookImport = "github.com/ory/fosite/verifhook"

type edit struct {
	off  int
	del  int
	text string
	seq  int
}

func main() {
	repo := flag.String("repo", "/repo", "fosite working tree")
	out := flag.String("out", "/verif/.work/overlay", "output directory for rewritten files")
	hooks := flag.String("hooks", "/verif/hooksrc/verifhook", "source of the verifhook package")
	noAccess := flag.Bool("no-access", false, "skip access hooks")
	as := flag.String("as", "", "emit overlay keys under this directory instead of -repo (shadow a scratch tree over the module path)")
	flag.Parse()

	if err := os.RemoveAll(*out); err != nil {
		die(err)
	}
	if err := os.MkdirAll(*out, 0o755); err != nil {
		die(err)
	}
	replace := map[string]string{}
	target := *repo
	if *as != "" {
		target = *as
	}
	// virtual packages
	replace[filepath.Join(target, "verifhook", "hook.go")] = filepath.Join(*hooks, "hook.go")
	replace[filepath.Join(target, "verifhook", "vsync", "vsync.go")] = filepath.Join(*hooks, "vsync", "vsync.go")

	skipDirs := map[string]bool{"internal": true, "integration": true, "docs": true, "scripts": true, ".git": true, "node_modules": true, "verifhook": true}
	byDir := map[string][]string{}
	err := filepath.Walk(*repo, func(p string, info os.FileInfo, err error) error {
		if err != nil {
			return err
		}
		rel, _ := filepath.Rel(*repo, p)
		if info.IsDir() {
			top := strings.Split(rel, string(filepath.Separator))[0]
			if skipDirs[top] {
				return filepath.SkipDir
			}
			return nil
		}
		if !strings.HasSuffix(p, ".go") || strings.HasSuffix(p, "_test.go") {
			return nil
		}
		byDir[filepath.Dir(p)] = append(byDir[filepath.Dir(p)], p)
		return nil
	})
	if err != nil {
		die(err)
	}
	stats := map[string]int{}
	// pre-pass: field names of jwt.IDTokenClaims (handlers of other packages write them through a pointer
	// obtained from the session: `claims := sess.IDTokenClaims(); claims.X = ...`)
	for d, files := range byDir {
		if filepath.Base(d) != "jwt" {
			continue
		}
		for _, f := range files {
			af, err := parser.ParseFile(token.NewFileSet(), f, nil, 0)
			if err != nil {
				continue
			}
			for name, flds := range collectStructs(map[string]*ast.File{f: af}) {
				if name == "IDTokenClaims" {
					for fn := range flds {
						claimsFields[fn] = true
					}
				}
			}
		}
	}
	dirs := make([]string, 0, len(byDir))
	for d := range byDir {
		dirs = append(dirs, d)
	}
	sort.Strings(dirs)
	for _, d := range dirs {
		files := byDir[d]
		sort.Strings(files)
		fset := token.NewFileSet()
		parsed := map[string]*ast.File{}
		srcs := map[string][]byte{}
		for _, f := range files {
			src, err := os.ReadFile(f)
			if err != nil {
				die(err)
			}
			af, err := parser.ParseFile(fset, f, src, parser.ParseComments)
			if err != nil {
				die(fmt.Errorf("mkoverlay: %s does not parse: %v", f, err))
			}
			if hasBuildIgnore(af) {
				continue
			}
			parsed[f] = af
			srcs[f] = src
		}
		structs := collectStructs(parsed)
		globals := collectGlobals(parsed)
		for _, f := range files {
			af := parsed[f]
			if af == nil {
				continue
			}
			eds := rewrite(fset, af, structs, globals, !*noAccess, stats)
			if !*noAccess {
				ce := rewriteClaims(fset, af, srcs[f], stats)
				if len(ce) > 0 && !hasHookImport(eds) {
					ce = append(ce, edit{off: fset.Position(af.Name.End()).Offset, text: `; import verifhook "` + hookImport + `"`})
				}
				eds = append(eds, ce...)
			}
			if len(eds) == 0 {
				if *as != "" {
					// shadow mode: every file of the scratch tree replaces its counterpart
					rel, _ := filepath.Rel(*repo, f)
					replace[filepath.Join(target, rel)] = f
				}
				continue
			}
			res := apply(srcs[f], eds)
			rel, _ := filepath.Rel(*repo, f)
			dst := filepath.Join(*out, rel)
			if err := os.MkdirAll(filepath.Dir(dst), 0o755); err != nil {
				die(err)
			}
			if err := os.WriteFile(dst, res, 0o644); err != nil {
				die(err)
			}
			// must still parse
			if _, err := parser.ParseFile(token.NewFileSet(), dst, res, 0); err != nil {
				die(fmt.Errorf("mkoverlay: rewritten %s does not parse: %v", rel, err))
			}
			replace[filepath.Join(target, rel)] = dst
			stats["files"]++
		}
	}
	js, _ := json.MarshalIndent(map[string]any{"Replace": replace}, "", " ")
	if err := os.WriteFile(filepath.Join(*out, "overlay.json"), js, 0o644); err != nil {
		die(err)
	}
	st, _ := json.Marshal(stats)
	os.WriteFile(filepath.Join(*out, "stats.json"), st, 0o644)
	fmt.Printf("mkoverlay: %s\n", st)
}

func die(err error) {
	fmt.Fprintln(os.Stderr, err)
	os.Exit(2)
}

func hasBuildIgnore(f *ast.File) bool {
	for _, cg := range f.Comments {
		if cg.Pos() > f.Package {
			break
		}
		for _, c := range cg.List {
			if strings.HasPrefix(c.Text, "//go:build") && (strings.Contains(c.Text, "ignore") || strings.Contains(c.Text, "tools")) {
				return true
			}
		}
	}
	return false
}

// statefulStd: standard-library types documented as stateful and not safe for concurrent use. Any use of a
// field of such a type (a method call on it, handing it to a local variable that is then used) mutates
// the object behind it, so it is reported as a write.
var statefulStd = map[string]bool{"hash.Hash": true, "hash.Hash32": true, "hash.Hash64": true, "bytes.Buffer": true, "strings.Builder": true, "rand.Rand": true,
	"bufio.Reader": true, "bufio.Writer": true, "bufio.Scanner": true, "json.Encoder": true, "json.Decoder": true, "cipher.Stream": true, "cipher.BlockMode": true}

// statefulCtor: constructors of the stateful standard-library types (for package-level variables declared without a type).
var statefulCtor = map[string]bool{"bufio.NewReader": true, "bufio.NewReaderSize": true, "bufio.NewWriter": true, "bufio.NewWriterSize": true, "bufio.NewScanner": true, "bufio.NewReadWriter": true,
	"bytes.NewBuffer": true, "bytes.NewBufferString": true, "bytes.NewReader": true, "strings.NewReader": true, "rand.New": true,
	"sha256.New": true, "sha256.New224": true, "sha512.New": true, "sha512.New384": true, "sha512.New512_256": true, "sha512.New512_224": true, "sha1.New": true, "md5.New": true, "hmac.New": true,
	"json.NewEncoder": true, "json.NewDecoder": true, "base64.NewEncoder": true, "base64.NewDecoder": true}

func isStatefulType(e ast.Expr) bool {
	if st, ok := e.(*ast.StarExpr); ok {
		e = st.X
	}
	if se, ok := e.(*ast.SelectorExpr); ok {
		if id, ok := se.X.(*ast.Ident); ok {
			return statefulStd[id.Name+"."+se.Sel.Name]
		}
	}
	return false
}

var statefulFields = map[string]bool{} // "T.F"
var mapFields = map[string]bool{}      // "T.F": the field is a map (shared even between value copies of the struct)

// collectStructs: struct name -> field name -> isLock
func collectStructs(files map[string]*ast.File) map[string]map[string]bool {
	res := map[string]map[string]bool{}
	for _, f := range files {
		for _, d := range f.Decls {
			gd, ok := d.(*ast.GenDecl)
			if !ok || gd.Tok != token.TYPE {
				continue
			}
			for _, s := range gd.Specs {
				ts := s.(*ast.TypeSpec)
				st, ok := ts.Type.(*ast.StructType)
				if !ok {
					continue
				}
				m := map[string]bool{}
				for _, fld := range st.Fields.List {
					isLock := false
					if se, ok := fld.Type.(*ast.SelectorExpr); ok {
						if id, ok := se.X.(*ast.Ident); ok && id.Name == "sync" {
							isLock = true
						}
					}
					for _, n := range fld.Names {
						m[n.Name] = isLock
						if isStatefulType(fld.Type) {
							statefulFields[ts.Name.Name+"."+n.Name] = true
						}
						if _, ok := fld.Type.(*ast.MapType); ok {
							mapFields[ts.Name.Name+"."+n.Name] = true
						}
					}
				}
				res[ts.Name.Name] = m
			}
		}
	}
	return res
}

func importName(f *ast.File, path string) (string, *ast.ImportSpec) {
	for _, im := range f.Imports {
		if strings.Trim(im.Path.Value, `"`) == path {
			if im.Name != nil {
				return im.Name.Name, im
			}
			return filepath.Base(path), im
		}
	}
	return "", nil
}

// globalKind: how uses of a package-level variable are classified.
//
//	1 = plain (slice/array/map/basic): only syntactic writes are writes
//	2 = byte buffer ([]byte, [N]byte): additionally, handing it (or a slice of it) to a call is a write
//	3 = stateful standard-library value: every use is a write
type globalVar struct {
	kind int
	spec *ast.ValueSpec
}

func typeKind(t ast.Expr) int {
	switch x := t.(type) {
	case *ast.ArrayType:
		if id, ok := x.Elt.(*ast.Ident); ok && id.Name == "byte" {
			return 2
		}
		return 1
	case *ast.MapType:
		return 1
	case *ast.Ident:
		switch x.Name {
		case "int", "int8", "int16", "int32", "int64", "uint", "uint8", "uint16", "uint32", "uint64", "uintptr", "bool", "string", "float32", "float64", "byte", "rune":
			return 1
		}
	}
	if isStatefulType(t) {
		return 3
	}
	return 0
}

func initKind(e ast.Expr) int {
	switch x := e.(type) {
	case *ast.CompositeLit:
		if x.Type != nil {
			if k := typeKind(x.Type); k == 1 || k == 2 {
				return k
			}
		}
	case *ast.CallExpr:
		if id, ok := x.Fun.(*ast.Ident); ok && (id.Name == "make" || id.Name == "new") && len(x.Args) > 0 {
			return typeKind(x.Args[0])
		}
		if at, ok := x.Fun.(*ast.ArrayType); ok { // []byte("...")
			return typeKind(at)
		}
		if se, ok := x.Fun.(*ast.SelectorExpr); ok { // bufio.NewReaderSize(...), sha256.New(), ...
			if id, ok := se.X.(*ast.Ident); ok && statefulCtor[id.Name+"."+se.Sel.Name] {
				return 3
			}
		}
	case *ast.UnaryExpr: // &bytes.Buffer{}
		if cl, ok := x.X.(*ast.CompositeLit); ok && x.Op == token.AND && cl.Type != nil && isStatefulType(cl.Type) {
			return 3
		}
	case *ast.BasicLit:
		return 1
	case *ast.Ident:
		if x.Name == "true" || x.Name == "false" {
			return 1
		}
	}
	return 0
}

// collectGlobals: package-level variables whose memory can be mutated in place (shared mutable package state).
func collectGlobals(files map[string]*ast.File) map[string]globalVar {
	res := map[string]globalVar{}
	for _, f := range files {
		for _, d := range f.Decls {
			gd, ok := d.(*ast.GenDecl)
			if !ok || gd.Tok != token.VAR {
				continue
			}
			for _, sp := range gd.Specs {
				vs := sp.(*ast.ValueSpec)
				for i, n := range vs.Names {
					if n.Name == "_" {
						continue
					}
					k := 0
					if vs.Type != nil {
						k = typeKind(vs.Type)
					} else if i < len(vs.Values) {
						k = initKind(vs.Values[i])
					}
					if k != 0 {
						res[n.Name] = globalVar{kind: k, spec: vs}
					}
				}
			}
		}
	}
	return res
}

func rewrite(fset *token.FileSet, f *ast.File, structs map[string]map[string]bool, globals map[string]globalVar, access bool, stats map[string]int) []edit {
	var eds []edit
	off := func(p token.Pos) int { return fset.Position(p).Offset }
	needHook := false

	// clock
	if tn, _ := importName(f, "time"); tn != "" && tn != "_" && tn != "." {
		usedOther := false
		ast.Inspect(f, func(n ast.Node) bool {
			se, ok := n.(*ast.SelectorExpr)
			if !ok {
				return true
			}
			id, ok := se.X.(*ast.Ident)
			if !ok || id.Name != tn || id.Obj != nil {
				return true
			}
			switch se.Sel.Name {
			case "Now", "Since", "Until":
				eds = append(eds, edit{off: off(id.Pos()), del: len(id.Name), text: "verifhook"})
				needHook = true
				stats["clock"]++
			default:
				usedOther = true
			}
			return true
		})
		if needHook && !usedOther {
			eds = append(eds, edit{off: off(f.End()), text: "\nvar _ = " + tn + ".Second\n"})
		}
	}
	// sync
	if sn, im := importName(f, "sync"); sn != "" {
		name := "sync"
		if im.Name != nil {
			name = im.Name.Name
		}
		start := off(im.Pos())
		eds = append(eds, edit{off: start, del: off(im.End()) - start, text: name + ` "` + hookImport + `/vsync"`})
		stats["sync"]++
	}
	// access
	if access {
		for _, d := range f.Decls {
			fd, ok := d.(*ast.FuncDecl)
			if !ok || fd.Recv == nil || fd.Body == nil || len(fd.Recv.List) != 1 || len(fd.Recv.List[0].Names) != 1 {
				continue
			}
			valueRecv := false
			var tid *ast.Ident
			if star, ok := fd.Recv.List[0].Type.(*ast.StarExpr); ok {
				tid, ok = star.X.(*ast.Ident)
				if !ok {
					continue
				}
			} else if id, ok := fd.Recv.List[0].Type.(*ast.Ident); ok {
				// value receiver: the struct is a private copy, but its map fields still point at shared maps
				tid, valueRecv = id, true
			} else {
				continue
			}
			fields := structs[tid.Name]
			if fields == nil {
				continue
			}
			recv := fd.Recv.List[0].Names[0]
			if recv.Name == "_" {
				continue
			}
			a := &accessRewriter{recv: recv, tname: tid.Name, fields: fields, off: off, valueRecv: valueRecv}
			a.block(fd.Body.List)
			if len(a.eds) > 0 {
				needHook = true
				stats["access"] += len(a.eds)
				eds = append(eds, a.eds...)
			}
		}
	}
	if access && len(globals) > 0 {
		for _, d := range f.Decls {
			fd, ok := d.(*ast.FuncDecl)
			if !ok || fd.Body == nil {
				continue
			}
			g := &globalRewriter{globals: globals, pkg: f.Name.Name, off: off}
			g.findAliases(fd.Body)
			g.block(fd.Body.List)
			if len(g.eds) > 0 {
				needHook = true
				stats["global"] += len(g.eds)
				eds = append(eds, g.eds...)
			}
		}
	}
	// *url.URL objects shared between requests (e.g. the redirect URI of a stored pushed request): writes to
	// RawQuery / Fragment through a local pointer, and String()/Query() reads of the same variable
	if access {
		for _, d := range f.Decls {
			fd, ok := d.(*ast.FuncDecl)
			if !ok || fd.Body == nil {
				continue
			}
			ue := urlEdits(fd.Body, off)
			if len(ue) > 0 {
				needHook = true
				stats["url"] += len(ue)
				eds = append(eds, ue...)
			}
		}
	}
	if needHook {
		// same line as the package clause: keeps line numbers
		eds = append(eds, edit{off: off(f.Name.End()), text: `; import verifhook "` + hookImport + `"`})
	}
	return eds
}

var urlFields = map[string]bool{"RawQuery": true, "Fragment": true, "RawFragment": true}

// urlEdits: syntactic rule (no type information): an identifier X that is assigned through X.RawQuery / X.Fragment /
// X.RawFragment somewhere in the function is taken to be a *url.URL; every such assignment gets a write hook and
// every simple statement calling X.String() or X.Query() a read hook.
func urlEdits(body *ast.BlockStmt, off func(token.Pos) int) []edit {
	vars := map[string]bool{}
	ast.Inspect(body, func(n ast.Node) bool {
		as, ok := n.(*ast.AssignStmt)
		if !ok {
			return true
		}
		for _, l := range as.Lhs {
			if se, ok := l.(*ast.SelectorExpr); ok && urlFields[se.Sel.Name] {
				if id, ok := se.X.(*ast.Ident); ok {
					vars[id.Name] = true
				}
			}
		}
		return true
	})
	if len(vars) == 0 {
		return nil
	}
	var eds []edit
	handle := func(list []ast.Stmt) {
		for _, st := range list {
			acc := map[string]bool{}
			var order []string
			note := func(k string, w bool) {
				if old, ok := acc[k]; ok {
					acc[k] = old || w
					return
				}
				acc[k] = w
				order = append(order, k)
			}
			var scan ast.Node
			switch t := st.(type) {
			case *ast.AssignStmt:
				for _, l := range t.Lhs {
					if se, ok := l.(*ast.SelectorExpr); ok && urlFields[se.Sel.Name] {
						if id, ok := se.X.(*ast.Ident); ok && vars[id.Name] {
							note(id.Name, true)
						}
					}
				}
				scan = st
			case *ast.ExprStmt, *ast.DeclStmt, *ast.ReturnStmt:
				scan = st
			case *ast.RangeStmt:
				scan = t.X
			}
			if scan != nil {
				ast.Inspect(scan, func(n ast.Node) bool {
					if _, ok := n.(*ast.FuncLit); ok {
						return false
					}
					ce, ok := n.(*ast.CallExpr)
					if !ok {
						return true
					}
					if se, ok := ce.Fun.(*ast.SelectorExpr); ok && (se.Sel.Name == "String" || se.Sel.Name == "Query") {
						if id, ok := se.X.(*ast.Ident); ok && vars[id.Name] {
							note(id.Name, false)
						}
					}
					return true
				})
			}
			if len(order) > 0 {
				var sb strings.Builder
				for _, k := range order {
					fmt.Fprintf(&sb, "verifhook.Access(%s, %q, %v); ", k, "url.URL", acc[k])
				}
				eds = append(eds, edit{off: off(st.Pos()), text: sb.String()})
			}
		}
	}
	ast.Inspect(body, func(n ast.Node) bool {
		switch t := n.(type) {
		case *ast.FuncLit:
			return false
		case *ast.BlockStmt:
			handle(t.List)
		case *ast.CaseClause:
			handle(t.Body)
		case *ast.CommClause:
			handle(t.Body)
		}
		return true
	})
	return eds
}

type accessRewriter struct {
	valueRecv bool
	recv      *ast.Ident
	tname     string
	fields    map[string]bool
	off       func(token.Pos) int
	eds       []edit
}

// block handles one statement list: for every statement, the accesses that belong to it
// (not to a nested list) get hooks right before the statement.
func (a *accessRewriter) block(list []ast.Stmt) {
	for _, st := range list {
		acc := map[string]bool{} // field -> write
		var order []string
		note := func(f string, w bool) {
			if statefulFields[a.tname+"."+f] {
				w = true
			}
			if old, ok := acc[f]; ok {
				acc[f] = old || w
				return
			}
			acc[f] = w
			order = append(order, f)
		}
		a.own(st, note)
		if len(order) > 0 {
			var sb strings.Builder
			for _, f := range order {
				if !a.valueRecv {
					fmt.Fprintf(&sb, "verifhook.Access(%s, %q, %v); ", a.recv.Name, a.tname+"."+f, acc[f])
				}
				if mapFields[a.tname+"."+f] {
					// keyed by the map itself: matches accesses made through a value copy of the struct
					fmt.Fprintf(&sb, "verifhook.Access(%s.%s, %q, %v); ", a.recv.Name, f, a.tname+"."+f, acc[f])
				}
			}
			if sb.Len() > 0 {
				a.eds = append(a.eds, edit{off: a.off(st.Pos()), text: sb.String()})
			}
		}
	}
}

func (a *accessRewriter) fieldOf(e ast.Expr) (string, bool) {
	for {
		switch x := e.(type) {
		case *ast.ParenExpr:
			e = x.X
			continue
		case *ast.IndexExpr:
			e = x.X
			continue
		case *ast.StarExpr:
			e = x.X
			continue
		case *ast.SelectorExpr:
			if id, ok := x.X.(*ast.Ident); ok && id.Name == a.recv.Name && id.Obj == a.recv.Obj {
				if isLock, ok := a.fields[x.Sel.Name]; ok && !isLock {
					return x.Sel.Name, true
				}
				return "", false
			}
			e = x.X
			continue
		}
		return "", false
	}
}

// own walks the parts of st that execute as part of st itself; nested statement lists are
// handed to block().
func (a *accessRewriter) own(st ast.Stmt, note func(string, bool)) {
	var expr func(e ast.Node)
	expr = func(e ast.Node) {
		if e == nil {
			return
		}
		ast.Inspect(e, func(n ast.Node) bool {
			switch x := n.(type) {
			case *ast.FuncLit:
				a.block(x.Body.List)
				return false
			case *ast.CallExpr:
				if id, ok := x.Fun.(*ast.Ident); ok && id.Name == "delete" && len(x.Args) == 2 {
					if f, ok := a.fieldOf(x.Args[0]); ok {
						note(f, true)
					}
				}
			case *ast.SelectorExpr:
				if id, ok := x.X.(*ast.Ident); ok && id.Name == a.recv.Name && id.Obj == a.recv.Obj {
					if isLock, ok := a.fields[x.Sel.Name]; ok && !isLock {
						note(x.Sel.Name, false)
					}
				}
			}
			return true
		})
	}
	var stmt func(s ast.Stmt)
	stmt = func(s ast.Stmt) {
		switch x := s.(type) {
		case nil:
		case *ast.BlockStmt:
			a.block(x.List)
		case *ast.AssignStmt:
			for _, l := range x.Lhs {
				if f, ok := a.fieldOf(l); ok {
					note(f, true)
				}
				expr(l)
			}
			for _, r := range x.Rhs {
				expr(r)
			}
		case *ast.IncDecStmt:
			if f, ok := a.fieldOf(x.X); ok {
				note(f, true)
			}
			expr(x.X)
		case *ast.IfStmt:
			stmt(x.Init)
			expr(x.Cond)
			a.block(x.Body.List)
			switch e := x.Else.(type) {
			case *ast.BlockStmt:
				a.block(e.List)
			case *ast.IfStmt:
				stmt(e)
			}
		case *ast.ForStmt:
			stmt(x.Init)
			expr(x.Cond)
			stmt(x.Post)
			a.block(x.Body.List)
		case *ast.RangeStmt:
			expr(x.X)
			a.block(x.Body.List)
		case *ast.SwitchStmt:
			stmt(x.Init)
			expr(x.Tag)
			for _, c := range x.Body.List {
				cc := c.(*ast.CaseClause)
				for _, e := range cc.List {
					expr(e)
				}
				a.block(cc.Body)
			}
		case *ast.TypeSwitchStmt:
			stmt(x.Init)
			stmt(x.Assign)
			for _, c := range x.Body.List {
				a.block(c.(*ast.CaseClause).Body)
			}
		case *ast.SelectStmt:
			for _, c := range x.Body.List {
				cc := c.(*ast.CommClause)
				stmt(cc.Comm)
				a.block(cc.Body)
			}
		case *ast.LabeledStmt:
			stmt(x.Stmt)
		case *ast.ExprStmt:
			expr(x.X)
		case *ast.ReturnStmt:
			for _, r := range x.Results {
				expr(r)
			}
		case *ast.DeferStmt:
			expr(x.Call)
		case *ast.GoStmt:
			expr(x.Call)
		case *ast.SendStmt:
			expr(x.Chan)
			expr(x.Value)
		case *ast.DeclStmt:
			expr(x.Decl)
		case *ast.BranchStmt, *ast.EmptyStmt:
		default:
			die(fmt.Errorf("mkoverlay: unknown statement kind %T", s))
		}
	}
	stmt(st)
}

// globalRewriter inserts Access notifications for uses of package-level variables (see globalVar).
type globalRewriter struct {
	globals map[string]globalVar
	pkg     string
	off     func(token.Pos) int
	eds     []edit
	alias   map[*ast.Object]string // local variable -> byte-buffer global it was sliced from
}

// findAliases: locals assigned from (a slice of) a package-level byte buffer share its memory.
func (g *globalRewriter) findAliases(body *ast.BlockStmt) {
	g.alias = map[*ast.Object]string{}
	for pass := 0; pass < 2; pass++ {
		ast.Inspect(body, func(n ast.Node) bool {
			as, ok := n.(*ast.AssignStmt)
			if !ok || len(as.Lhs) != len(as.Rhs) {
				return true
			}
			for i, r := range as.Rhs {
				root := rootIdent(r)
				lid, lok := as.Lhs[i].(*ast.Ident)
				if root == nil || !lok || lid.Obj == nil {
					continue
				}
				if gv, ok := g.isGlobal(root); ok && gv.kind == 2 {
					g.alias[lid.Obj] = root.Name
				} else if root.Obj != nil {
					if gname, ok := g.alias[root.Obj]; ok {
						g.alias[lid.Obj] = gname
					}
				}
			}
			return true
		})
	}
}

func (g *globalRewriter) aliasOf(e ast.Expr) (string, bool) {
	if r := rootIdent(e); r != nil && r.Obj != nil {
		n, ok := g.alias[r.Obj]
		return n, ok
	}
	return "", false
}

func (g *globalRewriter) isGlobal(id *ast.Ident) (globalVar, bool) {
	gv, ok := g.globals[id.Name]
	if !ok {
		return gv, false
	}
	// resolved identifiers must resolve to the package-level declaration; unresolved ones (declared in
	// another file of the package) are package-level by construction
	if id.Obj != nil {
		if vs, ok := id.Obj.Decl.(*ast.ValueSpec); !ok || vs != gv.spec {
			return gv, false
		}
	}
	return gv, true
}

func rootIdent(e ast.Expr) *ast.Ident {
	for {
		switch x := e.(type) {
		case *ast.ParenExpr:
			e = x.X
		case *ast.IndexExpr:
			e = x.X
		case *ast.SliceExpr:
			e = x.X
		case *ast.StarExpr:
			e = x.X
		case *ast.Ident:
			return x
		default:
			return nil
		}
	}
}

func (g *globalRewriter) block(list []ast.Stmt) {
	for _, st := range list {
		acc := map[string]bool{}
		var order []string
		note := func(name string, w bool) {
			if g.globals[name].kind == 3 {
				w = true
			}
			if old, ok := acc[name]; ok {
				acc[name] = old || w
				return
			}
			acc[name] = w
			order = append(order, name)
		}
		g.own(st, note)
		if len(order) > 0 {
			var sb strings.Builder
			for _, n := range order {
				fmt.Fprintf(&sb, "verifhook.Access(&%s, %q, %v); ", n, g.pkg+"."+n, acc[n])
			}
			g.eds = append(g.eds, edit{off: g.off(st.Pos()), text: sb.String()})
		}
	}
}

func (g *globalRewriter) own(st ast.Stmt, note func(string, bool)) {
	var expr func(e ast.Node)
	expr = func(e ast.Node) {
		if e == nil {
			return
		}
		ast.Inspect(e, func(n ast.Node) bool {
			switch x := n.(type) {
			case *ast.FuncLit:
				g.block(x.Body.List)
				return false
			case *ast.SelectorExpr:
				expr(x.X) // never look at .Sel
				return false
			case *ast.KeyValueExpr:
				expr(x.Value)
				if _, isIdent := x.Key.(*ast.Ident); !isIdent {
					expr(x.Key)
				}
				return false
			case *ast.CallExpr:
				if id, ok := x.Fun.(*ast.Ident); ok && (id.Name == "delete" || id.Name == "copy") && len(x.Args) >= 1 {
					if r := rootIdent(x.Args[0]); r != nil {
						if _, ok := g.isGlobal(r); ok {
							note(r.Name, true)
						}
					}
				}
				for _, a := range x.Args {
					if r := rootIdent(a); r != nil {
						if gv, ok := g.isGlobal(r); ok && gv.kind == 2 {
							note(r.Name, true) // a byte buffer handed to a call
						}
					}
					if gname, ok := g.aliasOf(a); ok {
						note(gname, true) // ... or a local slice of it
					}
				}
			case *ast.UnaryExpr:
				if x.Op == token.AND {
					if r := rootIdent(x.X); r != nil {
						if _, ok := g.isGlobal(r); ok {
							note(r.Name, true) // address taken: assume it is written through
						}
					}
				}
			case *ast.Ident:
				if _, ok := g.isGlobal(x); ok {
					note(x.Name, false)
				}
			}
			return true
		})
	}
	var stmt func(s ast.Stmt)
	stmt = func(s ast.Stmt) {
		switch x := s.(type) {
		case nil:
		case *ast.BlockStmt:
			g.block(x.List)
		case *ast.AssignStmt:
			for _, l := range x.Lhs {
				if _, isIdx := l.(*ast.IndexExpr); isIdx {
					if gname, ok := g.aliasOf(l); ok {
						note(gname, true) // element write through a local slice of a global buffer
					}
				}
				if r := rootIdent(l); r != nil && x.Tok != token.DEFINE {
					if _, ok := g.isGlobal(r); ok {
						note(r.Name, true)
					}
				}
				if x.Tok != token.DEFINE {
					expr(l)
				}
			}
			for _, r := range x.Rhs {
				expr(r)
			}
		case *ast.IncDecStmt:
			if r := rootIdent(x.X); r != nil {
				if _, ok := g.isGlobal(r); ok {
					note(r.Name, true)
				}
			}
			expr(x.X)
		case *ast.IfStmt:
			stmt(x.Init)
			expr(x.Cond)
			g.block(x.Body.List)
			switch e := x.Else.(type) {
			case *ast.BlockStmt:
				g.block(e.List)
			case *ast.IfStmt:
				stmt(e)
			}
		case *ast.ForStmt:
			stmt(x.Init)
			expr(x.Cond)
			stmt(x.Post)
			g.block(x.Body.List)
		case *ast.RangeStmt:
			expr(x.X)
			g.block(x.Body.List)
		case *ast.SwitchStmt:
			stmt(x.Init)
			expr(x.Tag)
			for _, c := range x.Body.List {
				cc := c.(*ast.CaseClause)
				for _, e := range cc.List {
					expr(e)
				}
				g.block(cc.Body)
			}
		case *ast.TypeSwitchStmt:
			stmt(x.Init)
			stmt(x.Assign)
			for _, c := range x.Body.List {
				g.block(c.(*ast.CaseClause).Body)
			}
		case *ast.SelectStmt:
			for _, c := range x.Body.List {
				cc := c.(*ast.CommClause)
				stmt(cc.Comm)
				g.block(cc.Body)
			}
		case *ast.LabeledStmt:
			stmt(x.Stmt)
		case *ast.ExprStmt:
			expr(x.X)
		case *ast.ReturnStmt:
			for _, r := range x.Results {
				expr(r)
			}
		case *ast.DeferStmt:
			expr(x.Call)
		case *ast.GoStmt:
			expr(x.Call)
		case *ast.SendStmt:
			expr(x.Chan)
			expr(x.Value)
		case *ast.DeclStmt:
			// local declarations may shadow; their initialisers may read globals
			if gd, ok := x.Decl.(*ast.GenDecl); ok {
				for _, sp := range gd.Specs {
					if vs, ok := sp.(*ast.ValueSpec); ok {
						for _, v := range vs.Values {
							expr(v)
						}
					}
				}
			}
		case *ast.BranchStmt, *ast.EmptyStmt:
		default:
			die(fmt.Errorf("mkoverlay: unknown statement kind %T", s))
		}
	}
	stmt(st)
}

var claimsFields = map[string]bool{}

func hasHookImport(eds []edit) bool {
	for _, e := range eds {
		if strings.Contains(e.text, "import verifhook") {
			return true
		}
	}
	return false
}

// rewriteClaims instruments accesses to the ID-token claims object that handlers reach through the session:
//
//	claims := sess.IDTokenClaims(); claims.F = v        and        sess.IDTokenClaims().F = v
//
// The object is shared by every request that holds the same session, so these are the accesses a session-sharing
// bug races on.
func rewriteClaims(fset *token.FileSet, f *ast.File, src []byte, stats map[string]int) []edit {
	if len(claimsFields) == 0 {
		return nil
	}
	off := func(p token.Pos) int { return fset.Position(p).Offset }
	var eds []edit
	isAccessor := func(e ast.Expr) bool {
		c, ok := e.(*ast.CallExpr)
		if !ok || len(c.Args) != 0 {
			return false
		}
		se, ok := c.Fun.(*ast.SelectorExpr)
		return ok && se.Sel.Name == "IDTokenClaims"
	}
	for _, d := range f.Decls {
		fd, ok := d.(*ast.FuncDecl)
		if !ok || fd.Body == nil {
			continue
		}
		// locals bound to the claims object
		locals := map[*ast.Object]bool{}
		ast.Inspect(fd.Body, func(n ast.Node) bool {
			if as, ok := n.(*ast.AssignStmt); ok && len(as.Lhs) == len(as.Rhs) {
				for i, r := range as.Rhs {
					if id, ok := as.Lhs[i].(*ast.Ident); ok && id.Obj != nil && isAccessor(r) {
						locals[id.Obj] = true
					}
				}
			}
			return true
		})
		var block func(list []ast.Stmt)
		visitStmt := func(st ast.Stmt, at token.Pos) {
			type acc struct {
				base  string
				field string
				w     bool
			}
			var found []acc
			baseOf := func(e ast.Expr) (string, bool) {
				if id, ok := e.(*ast.Ident); ok && id.Obj != nil && locals[id.Obj] {
					return id.Name, true
				}
				if isAccessor(e) {
					return string(src[off(e.Pos()):off(e.End())]), true
				}
				return "", false
			}
			writes := map[ast.Expr]bool{}
			switch x := st.(type) {
			case *ast.AssignStmt:
				for _, l := range x.Lhs {
					e := l
					for {
						if ix, ok := e.(*ast.IndexExpr); ok {
							e = ix.X
							continue
						}
						break
					}
					writes[e] = true
				}
			case *ast.IncDecStmt:
				writes[x.X] = true
			}
			ast.Inspect(st, func(n ast.Node) bool {
				switch x := n.(type) {
				case *ast.BlockStmt:
					if n != st {
						return false // nested lists are handled on their own
					}
				case *ast.FuncLit:
					return false
				case *ast.SelectorExpr:
					if b, ok := baseOf(x.X); ok && claimsFields[x.Sel.Name] {
						found = append(found, acc{b, x.Sel.Name, writes[x]})
					}
				}
				return true
			})
			if len(found) > 0 {
				var sb strings.Builder
				seen := map[string]bool{}
				for _, a := range found {
					k := a.base + "." + a.field + fmt.Sprint(a.w)
					if seen[k] {
						continue
					}
					seen[k] = true
					fmt.Fprintf(&sb, "verifhook.Access(%s, %q, %v); ", a.base, "IDTokenClaims."+a.field, a.w)
				}
				eds = append(eds, edit{off: off(at), text: sb.String()})
				stats["claims"] += len(seen)
			}
		}
		block = func(list []ast.Stmt) {
			for _, st := range list {
				// a declaration statement `claims := sess.IDTokenClaims()` itself has no field access
				switch x := st.(type) {
				case *ast.BlockStmt:
					block(x.List)
					continue
				case *ast.IfStmt:
					// header (init/cond) accesses are attributed to the if statement; bodies recursively
					// the headers of the whole else-if chain are attributed to the outermost if
					for cur := x; cur != nil; {
						visitStmt(&ast.IfStmt{If: cur.If, Init: cur.Init, Cond: cur.Cond, Body: &ast.BlockStmt{}}, x.Pos())
						block(cur.Body.List)
						switch e := cur.Else.(type) {
						case *ast.BlockStmt:
							block(e.List)
							cur = nil
						case *ast.IfStmt:
							cur = e
						default:
							cur = nil
						}
					}
					continue
				case *ast.ForStmt:
					block(x.Body.List)
					continue
				case *ast.RangeStmt:
					block(x.Body.List)
					continue
				case *ast.SwitchStmt:
					for _, c := range x.Body.List {
						block(c.(*ast.CaseClause).Body)
					}
					continue
				case *ast.TypeSwitchStmt:
					for _, c := range x.Body.List {
						block(c.(*ast.CaseClause).Body)
					}
					continue
				}
				visitStmt(st, st.Pos())
			}
		}
		block(fd.Body.List)
	}
	return eds
}

func apply(src []byte, eds []edit) []byte {
	for i := range eds {
		eds[i].seq = i
	}
	sort.SliceStable(eds, func(i, j int) bool {
		if eds[i].off != eds[j].off {
			return eds[i].off < eds[j].off
		}
		// insertions before replacements at the same offset
		return eds[i].del < eds[j].del
	})
	var out []byte
	pos := 0
	for _, e := range eds {
		if e.off < pos {
			die(fmt.Errorf("mkoverlay: overlapping edits at %d", e.off))
		}
		out = append(out, src[pos:e.off]...)
		out = append(out, e.text...)
		pos = e.off + e.del
	}
	out = append(out, src[pos:]...)
	return out
}
