#!/bin/bash
# seed_check.sh <seed name> <property>...  — run the given checks (quick) against a seed in a shadow worktree
n="$1"; shift
H="${VERIF_HOME:-/verif}"; cd "$H"
WT=/tmp/wt/sc.$$
git -C /repo worktree add --detach $WT HEAD >/dev/null 2>&1
if ! git -C $WT apply $H/seeded/$n/patch.diff 2>/dev/null; then echo "$n PATCH-DOES-NOT-APPLY"; git -C /repo worktree remove --force $WT; exit 1; fi
for p in "$@"; do
  VERIF_EVIDENCE_DIR=/tmp/wt/sc-evidence VERIF_REPO=$WT ./verif check $p --tier ${TIER:-quick} > /tmp/wt/sc.$n.$p.log 2>&1; rc=$?
  echo "$n $p rc=$rc violations=$(grep -c '^VIOLATION' /tmp/wt/sc.$n.$p.log) $(grep -m1 '^VIOLATION' /tmp/wt/sc.$n.$p.log | sed 's/.*replays\///' | cut -c1-90)"
done
git -C /repo worktree remove --force $WT >/dev/null 2>&1
