#!/bin/bash
# install_seed.sh <srcdir> <name> <property>  — verify a candidate on /repo HEAD and, if confirmed, keep it under /verif/seeded/<name>/
SRC="$1"; NAME="$2"; PROP="$3"; PKG="${4:-}"
OUT=$(/verif/tools/verify_seed.sh "$SRC" "$NAME" $PKG 2>&1)
echo "$OUT" | grep -E "RESULT|VERIFIED|REJECTED"
if echo "$OUT" | grep -q "^VERIFIED"; then
  D=/verif/seeded/$NAME; mkdir -p $D
  cp "$SRC/patch.diff" "$SRC/demo_test.go" $D/
  [ -f "$SRC/NOTES.md" ] && cp "$SRC/NOTES.md" $D/
  RES=$(echo "$OUT" | grep "^RESULT")
  python3 - "$D" "$NAME" "$PROP" "$RES" "$(git -C /repo rev-parse --short HEAD)" <<'PY'
import json,sys,re
d,name,prop,res,rev=sys.argv[1:6]
notes=open(d+'/NOTES.md').read() if __import__('os').path.exists(d+'/NOTES.md') else ''
meta={"name":name,"breaks_property":prop,"origin":"independent sub-agent given only the property text and a scratch worktree",
 "needs_to_manifest": notes[:1500],
 "verified_on_repo_rev":rev,
 "what_was_run":"tools/verify_seed.sh: scratch worktree of /repo HEAD; demo test passes on the unchanged tree, fails with patch.diff applied; full `go test ./...` passes with the patch",
 "verify_result":res,
 "detected_by": []}
json.dump(meta,open(d+'/meta.json','w'),indent=1)
PY
fi
