#!/bin/bash
# For every kept seed: shadow a scratch worktree (with the seed applied) over /repo and run the check of the
# property it breaks (and optionally others). /repo itself is never touched.
# usage: seed_matrix.sh [tier] [names...]
TIER="${1:-quick}"; shift
cd "${VERIF_HOME:-/verif}"
NAMES="$@"; [ -z "$NAMES" ] && NAMES=$(ls seeded | grep -v MATRIX)
WT=/tmp/wt/matrix.$$
for n in $NAMES; do
  prop=$(python3 -c "import json;print(json.load(open('${VERIF_HOME:-/verif}/seeded/$n/meta.json'))['breaks_property'])")
  git -C /repo worktree remove --force $WT >/dev/null 2>&1
  git -C /repo worktree add --detach $WT HEAD >/dev/null 2>&1
  if ! git -C $WT apply ${VERIF_HOME:-/verif}/seeded/$n/patch.diff 2>/dev/null; then echo "$n $prop PATCH-DOES-NOT-APPLY"; continue; fi
  VERIF_EVIDENCE_DIR=/tmp/wt/matrix-evidence VERIF_REPO=$WT ./verif check $prop --tier $TIER > /tmp/wt/matrix.$n.log 2>&1; rc=$?
  nv=$(grep -c '^VIOLATION' /tmp/wt/matrix.$n.log)
  first=$(grep -m1 '^VIOLATION' /tmp/wt/matrix.$n.log | sed 's/.*replay=.*replays\///' | cut -c1-90)
  echo "$n $prop rc=$rc violations=$nv $first"
done
git -C /repo worktree remove --force $WT >/dev/null 2>&1
