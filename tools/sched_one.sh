#!/bin/bash
# debug helper: explore one scheduler case in a worker and summarise.  usage: sched_one.sh '<schedCase json>' [fn]
cd /verif; export GOFLAGS=-mod=mod GOPROXY=off GOSUMDB=off GOTOOLCHAIN=local GOCACHE=/verif/.cache/go
.work/bin/mkoverlay -out .work/ov.dbg >/dev/null && go build -overlay .work/ov.dbg/overlay.json -o .work/bin/hdbg ./h || exit 1
echo "{\"id\":1,\"fn\":\"${2:-sched}\",\"arg\":$1}" | timeout ${T:-60} .work/bin/hdbg worker | python3 -c "
import json,sys
for l in sys.stdin:
    r=json.loads(l)
    if r.get('err'): print('ERR', r['err'][:3000]); continue
    res=r['res']; print({k:res.get(k) for k in ['evals','states','trans','capped','notes']}); print('classes', len(res.get('classes') or {}))
    for v in res.get('viol') or []: print('VIOL', v['fingerprint'], '|', v['what'][:400])
"
