#!/usr/bin/env python3
"""Regenerates /verif/MANIFEST.json from the table below (single source of truth)."""
import json, os

V = "/verif"
ENV = "cd /repo && GOFLAGS=-mod=mod GOPROXY=off GOSUMDB=off GOTOOLCHAIN=local"

checks = {
 "C01": dict(level="model_checking", engine="HIST", ref="DESIGN.md §5 C01",
   technique="explicit-state BFS over API histories of the real provider with a lock-step reference model; every transition replayed on a fresh instance, global state deduplication",
   text="Bounded model checking of the real provider: every history of authorize/redeem/refresh/revoke/advance operations up to the stated depth over <=2 concurrent grants, 3 flows, 2 token strategies and 3 refresh-scope configurations is executed against ory/fosite and compared step by step with a reference model (single use, invalid_grant on replay, whole descendant family dead); after every transition every token ever issued is introspected. Plus: 2..3 (4) overlapping redemptions of one code with every interleaving of their NewAccessRequest / NewAccessResponse phases (at most one succeeds); and a further search (one level shallower) over grants started from pushed authorization requests, including a second presentation of the same request_uri.",
   note="Bounded: depth/grants/alphabet as reported in evidence.bounds. Trusted: the harness drivers (HTTP round trips through httptest), the overlay clock rewrite, the deterministic random source; reference MemoryStore behind a logging proxy."),
 "C03": dict(level="model_checking", engine="SEQ", ref="DESIGN.md §5 C03",
   technique="exhaustive enumeration of all redemption-attempt sequences up to a depth on the real token endpoint, judged by a reference predicate",
   text="All sequences of <=4 (quick) / <=5 (thorough) redemption attempts drawn from 7 attempt kinds on one code, for every enforcement x plain x client type x flow x binding configuration, run on the real provider; tokens may only be issued for a well-formed verifier that transforms to the bound challenge under the bound method. Further alphabets to smaller depths: unusual grant_type spellings and a transient PKCE-lookup failure; 8 spellings of the code itself (white space, CR/LF, prefix variants); histories whose authorization response was built while one of its storage writes failed. Also: the PKCE lookup losing a transaction conflict (the store answers fosite.ErrSerializationFailure).",
   note="One-sided oracle exactly as the statement; verifier alphabet is the 7 listed kinds; PKCE parameters other than those listed are out of the alphabet."),
 "C04": dict(level="model_checking", engine="HIST", ref="DESIGN.md §5 C04",
   technique="explicit-state BFS over API histories of the real provider with a lock-step reference model (refresh chains, replay of any generation), global state deduplication",
   text="Every history up to the stated depth over <=2 grants (code, hybrid, password, device, OIDC public) in which every refresh token ever issued remains presentable (by owner or foreign client), with revocation and time advance interleaved; model: one use per refresh token, rotation kills presented RT and sibling AT, reuse answers invalid_grant and kills the family, other grants untouched; every token introspected after every step. Plus: a search with JWT access tokens under RS256 (deterministic signatures; tokens minted in the same second differ only in jti), and 2..3 (4) overlapping exchanges of one refresh token with every interleaving of their NewAccessRequest / NewAccessResponse phases (at most one succeeds). A further search covers grants started from a pushed request and from a second presentation of the same request_uri (an independent grant with a family of its own, should it start).",
   note="Bounded by depth (chain length <= depth-1). Where the statement is silent (state after refusing a never-used token) the model adopts the implementation's answer and counts a dont_care."),
 "C08": dict(level="model_checking", engine="HIST", ref="DESIGN.md §5 C08",
   technique="explicit-state BFS over API histories with revocation by owner / foreign / unauthenticated callers and all token_type_hints on tokens in every liveness state; store-dump equality for 'changes nothing'",
   text="Every history up to the stated depth over <=2 grants where each token ever seen can be revoked by owner, foreign client, a caller failing authentication, or the owner presenting a forged string that carries the token's signature part, with 6 hint values (absent, access_token, refresh_token, garbage, id_token, authorize_code); the verdict is the endpoint's HTTP answer; oracle: owner => token and sibling dead in all later sweeps; foreign => unauthorized_client and byte-identical store dump; unauthenticated => unchanged; already invalid (also: expired) => success and unchanged. Plus: a refresh request validated before and completed after the owner's accepted revocation (of the presented refresh token / of its sibling access token) must not yield live tokens. A further search (one level shallower) runs with an application revocation handler registered in front of the library's.",
   note="Bounded by depth; 'other tokens of the same grant' after an owner revocation are not pinned by the statement and are adopted from introspection. Known findings: a forged string with a genuine signature part, and an already expired token, revoke the grant (see known_findings.json)."),
 "C09": dict(level="model_checking", engine="HIST", ref="DESIGN.md §5 C09",
   technique="explicit-state BFS over API histories of all grant types; in every reached state the introspection endpoint is queried for every token under a grid of hints, scopes and caller credentials and compared with the model",
   text="In every state reached by histories up to the stated depth (code, hybrid, password, device, client credentials, OIDC; HMAC and JWT; refresh-token validation on/off; 3 scope strategies) every token ever seen is introspected and active/payload compared with the reference model; refresh tokens are also presented by a foreign client (replay detection must kill the family whoever replays); callers include a public client's id with some secret and the token itself as bearer in other spellings (known finding); plus the stateless JWT validator alone: audience, scope and exp reported for an active token equal the token's claims. A further search (one level shallower) runs with refresh tokens that never expire.",
   note="Bounded by depth and alphabets in evidence.bounds; token kind is read from the IntrospectionResponder because the HTTP writer does not render it."),
}

checks.update({
 "C02": dict(level="exploration", engine="ENUM", ref="DESIGN.md §5 C02",
   technique="exhaustive enumeration of the full product of attempt dimensions at several history positions on the real provider, reference predicate + store-dump equality",
   text="Every combination of owner client (confidential/public, with/without redirect_uri sent) x flow (code, OIDC code, hybrid, pushed request, pushed request with another registered redirect_uri appended on the front channel) x history position x token strategy x presenter x redirect_uri form x smuggled parameter (incl. partial consent) x code age is executed as authorize -> attempt -> legitimate redemption -> introspection on a fresh provider. Issuance only for owner + string-equal redirect_uri + unexpired; refusals must be invalid_grant for foreign client / different redirect_uri, leave the store dump unchanged and the code redeemable; issued tokens carry exactly the grant. Further flow: the authorization requests no scope and no audience and the integrator's token endpoint grants whatever the access request reports as requested (a smuggled scope/audience must not become 'requested').",
   note="Alphabets are those listed in evidence.bounds; code ages are 5 s away from the expiry instant (expiry rounding is C07)."),
 "C05": dict(level="exploration", engine="ENUM", ref="DESIGN.md §5 C05",
   technique="exhaustive enumeration of the full product of grant / request / registration-change / configuration dimensions on the real provider against independent reference strategies",
   text="Every combination of grant origin x granted scopes x audience x refresh-request parameters x presenter x post-issuance registration change (in place or by replacing the record) x refresh-scope configuration x scope strategy x client refresh grant x prior chain length x {partial consent, replaced registration, refresh grant lost between authorization and redemption} (registration edits include leaving a look-alike string prefix of the removed scope registered) is executed on a fresh provider; refresh honoured only for the owner still covering every granted scope/audience and holding the grant; new tokens' sub/scope/aud equal the original grant; refresh tokens only issued under the stated conditions. Also: a password grant in which the application grants nothing of what was requested, and a registration whose audience list was emptied altogether.",
   note="Scope coverage judged by refstrat.go (independent implementation of the documented strategies)."),
})

checks.update({
 "C06": dict(level="exploration", engine="ENUM", ref="DESIGN.md §5 C06",
   technique="exhaustive enumeration of a mutation grammar over genuine credentials (all single-bit flips, all truncations, all part swaps, prefixes, re-encodings, secrets, hash functions, JWT header/payload/signature manipulations), each mutant presented end to end to the real provider and judged by a reference HMAC",
   text="For every hash function x entropy x refresh lifespan configuration, four genuine credentials are minted and every mutant of the grammar is presented at the endpoint that accepts the kind; an accepted string must authenticate under a configured >=32-byte secret per an independent HMAC computation. 8 secret-rotation scenarios, short secrets, JWT algorithm confusion for 4 signing keys, and structural minting checks (bytes drawn, embedding, distinctness) through a counting deterministic random source that also answers with short reads (1/8/31 bytes per call); a symmetric (oct) JWK configured as signing key must never lead to an accepted JWT (server-minted or forged HS256/384/512).",
   note="Strings decoding to the genuine bytes are don't-care; entropy is checked structurally (crypto/rand quality assumed)."),
 "C12": dict(level="exploration", engine="ENUM", ref="DESIGN.md §5 C12",
   technique="exhaustive enumeration of all (registered, requested) string pairs over a segment alphabet and of a URL grid against documented semantics (two-sided), plus the full flow x strategy x request-family product on the real provider (one-sided)",
   text="Part 1 compares the three scope strategies and two audience strategies with an independent transcription of the documentation on every pair of dotted strings over {a,b,ab,*,empty} up to 5 (quick) / 6 (thorough) segments and every pair of a 72-URL grid. Part 2 runs 14 flows x 3 scope strategies x 2 audience strategies x 12 scope families x 10 audience families x {full, partial consent} on a fresh provider: uncovered requests must issue nothing and token scope/audience must stay within the grant, also after one refresh. Two further flows send the case's scope/audience only with the token request (code redemption, device poll) to an integrator that grants what the access request reports as requested: the tokens must carry nothing.",
   note="Documentation-undefined inputs (empty segments absorbed by a trailing wildcard, host case) are don't-care."),
 "C16": dict(level="model_checking", engine="SEQ", ref="DESIGN.md §5 C16",
   technique="exhaustive enumeration (iterative deepening) of all operation sequences up to a depth over <=2 device flows on the real provider with a lock-step model, for the reference store and a contract-following store",
   text="Every sequence of device_auth / accept / accept-with-replaced-session / reject / poll (right, wrong, wrong client with body client_id; genuine, forged random part, forged with the user-code signature) / advance up to depth 6 (one flow) and 5 (two flows) [8/6 thorough], on both stores; tokens only for accepted, unexpired, unconsumed flows polled by the right client with the genuine code; error classes where exactly one clause applies; replay on the contract store must leave the first pair inactive; codes reach storage only as signatures; overlapping polls of one device code (API-phase interleavings) yield tokens at most once; with a user-code space of 1..3 values, pending flows never share a user code.",
   note="randx user-code randomness cannot be intercepted; checked for distinctness only."),
})

checks.update({
 "C17": dict(level="model_checking", engine="SEQ", ref="DESIGN.md §5 C17",
   technique="exhaustive enumeration (iterative deepening) of all operation sequences up to a depth over <=2 pushed requests on the real provider with a lock-step model; every started authorization is carried through redemption and compared with the pushed values",
   text="Every sequence of push (10 variants incl. failed authentication, header/body client mismatch with and without a request parameter, request containing request_uri) / use(request_uri, right or wrong client, 10 conflicting extra parameters, with a failing DeletePARSession, or spelt with trailing white space) / use(unknown or foreign-prefix URI) / plain authorize / advance up to depth 4 (5 thorough), for enforcement on/off and default/custom prefix. A request_uri starts at most one authorization, only for its client, only before expiry; the resulting redirect, state, response delivery, stored form values, token scope/audience/client, PKCE binding and ID-token nonce equal the pushed values. Further push variants: no scope and no audience pushed (the authorization proceeds with none, whatever the query adds), and the client named only in the URL query of the push. An authorization-serving instance composed without the push handler must enforce pushing as well.",
   note="Survival of a request_uri after a refused attempt and parameters that were not pushed at all are not pinned by the statement (recorded as notes)."),
})

checks.update({
 "C07": dict(level="exploration", engine="ENUM", ref="DESIGN.md §5 C07",
   technique="exhaustive enumeration of credential kind x lifetime source x issue offset x history position x age x exp encoding x session implementation under a virtual clock on the real provider; exhaustive override table",
   text="27 credential kinds (ID tokens of the code / implicit / hybrid / refresh flows, judged by their exp; code; access tokens from 8 grants incl. JWT; refresh tokens from 3 grants and unlimited; device/user code; request_uri; JWT-bearer and client assertions with int/float/fractional exp; access token used as bearer; tokens after an abandoned refresh/redemption) x 10 lifetime sources (server default, three configured triples, per-client override, session-provided access-token expiry, unlimited refresh tokens alone / under a finite override / under a finite override of the code grant only, finite default with an unlimited per-client refresh-grant override) x 3 (11 thorough) sub-second issue offsets x 3 history positions x 10 (22) ages on both sides of expiry x 2 session implementations: >=2 s after expiry must be refused wherever presented, >=2 s before an advertised expiry must be honoured, advertised lifetime within 1 s of the effective one; GetEffectiveLifespan checked for all 12 fields x 7 grants x 4 token types. Signed OpenID Connect request objects with an exp of their own (int/float/fractional) are a further credential kind, presented at the authorization endpoint.",
   note="+-1 s around expiry is don't-care; the clock is the overlay virtual clock (all time.Now/Since/Until in ory/fosite are rewritten at build time)."),
})

checks.update({
 "C11": dict(level="exploration", engine="ENUM", ref="DESIGN.md §5 C11",
   technique="exhaustive enumeration of a URI mutation grammar (all compositions up to a depth) x registered sets x response modes x error timings against the real authorization and PAR endpoints; written bytes judged by an independent RFC 3986 splitter",
   text="For 15 registered-URI sets, every composition of <=2 (quick) / <=3 (thorough; depth 3 under 2 modes x 2 error timings) of 60 mutations of a registered URI is requested under 6 response type/mode combinations and 7 error timings (and through PAR); whenever a Location header or form_post action is written, its target (minus response parameters) must be identical to a registered URI or an http loopback-literal variant with equal host/path/query, absolute and fragment-free; codes never go to plain-http non-local targets; a missing redirect_uri with several registered never redirects. Also: a registered URI that repeats a query key, and a request pushed by another client presented under this client's client_id (whatever is delivered must go to a URI registered for the client the code/token belongs to).",
   note="Query permutations/re-encodings and scheme case count as identical; percent-decoded-equal loopback paths are don't-care. Known finding: form_post with non-http(s) schemes (see known_findings.json)."),
})

checks.update({
 "C10": dict(level="exploration", engine="ENUM", ref="DESIGN.md §5 C10",
   technique="exhaustive enumeration of registration x endpoint/grant x credential transport x secret relation (x skip-auth setting) on the real provider with real bcrypt, judged by an independent reference of who is authenticated; proxy-store log and store-dump equality for 'neither issues nor invalidates'",
   text="14 client registrations (plain with 0/1/2 rotated secrets or only empty rotated slots, public with/without secret hash, confidential with empty hash, OIDC clients for each token_endpoint_auth_method, special characters) x 9 endpoints/grants x 15 transports (basic, post, both, id only, nothing, malformed / unencoded header, private_key_jwt assertion with right/wrong key, assertion+basic, expired / not-yet-valid assertion, split credentials, credentials in the URL query) x 8 secret relations: a request is processed only for a presentation that authenticates the registration; a refusal carries invalid_client or invalid_request; every rejected one writes to no code/token table, leaves the store dump unchanged and a victim token active; public clients never pass client_credentials; only jwt-bearer with the explicit setting runs without client authentication, and then the issued token is not bound to the confidential client of the failed presentation. private_key_jwt clients registered by jwks_uri run against the real JWKS fetcher and cache (in-memory transport): 6 look-alike URI pairs x 6 warm-up histories; an assertion signed with the other client's key is always refused. Transports also include: another client authenticating correctly while the client under test is named in the URL query only (pushed-authorization endpoint), and a correctly signed assertion addressed to a proper prefix of the token URL.",
   note="Mixed presentations are don't-care; bcrypt cost 4. Known finding: the PAR endpoint accepts credentials from the URL query string (see known_findings.json)."),
})

checks.update({
 "C13": dict(level="exploration", engine="ENUM", ref="DESIGN.md §5 C13",
   technique="exhaustive enumeration of five product groups (registration x request) against the real authorization endpoint, one-sided acceptance conditions; issued codes carried to the token endpoint",
   text="G1 response types (8 registrations x 4 grant sets x public x every ordered list of <=3 tokens incl. duplicates/unknown/empty x openid), G2 response modes, G3 state/nonce lengths around the threshold for two entropy settings, G4 redirect_uri presence x openid x flows x grant sets, G5 request objects (19 variants incl. expired / not-yet-valid objects, which must be refused with an OAuth 2.0 error, and look-alike request_uri strings: registered/other/unknown keys, RS/ES/PS/HS/none, tampered, request_uri registered/unregistered/unfetchable/both x 6 registered algorithms): an accepted request satisfies every condition of the statement; access and ID tokens never appear in the query; state is echoed on every redirect; a client without authorization_code never redeems a code; request-object parameters are honoured only for registered key+algorithm; G2 also through pushed requests (response_mode pushed, or appended to the request_uri leg); G6: request objects verified through jwks_uri with the real fetcher and cache (look-alike URIs of two tenants). G2 also with a registered redirect URI that carries query parameters named like response parameters (state, scope): the client must read the request's state from the channel the response was delivered in.",
   note="G7 covers the cross terms of G1-G4 on three registrations. Don't-care: hybrid code+id_token ID token without implicit grant; unsigned request object when no algorithm is registered."),
})

checks.update({
 "C14": dict(level="exploration", engine="ENUM", ref="DESIGN.md §5 C14",
   technique="exhaustive enumeration of flow x key/algorithm x nonce x auth_time x max_age x prompt x id_token_hint x preset expiry x extra-claims on the real provider; every ID token verified with the public key and recomputed from the same response",
   text="8 OpenID flows (code, implicit x2, hybrid x3, refresh chains of 3, device) x 7 key/algorithm pairs (ES256/384/512, RS256/384/512, PS256) x nonce x the auth_time/max_age (absent, 0, 300, 1000, 300 as a JSON number inside a signed request object)/prompt/hint/preset-expiry/extras grid: every ID token in any response verifies under the server key, names the client in aud, carries session subject and issuer, echoes the nonce, expires within the configured lifetime (unless preset), and its at_hash / c_hash equal the left half of the alg-selected hash of the access token / code of the same response; refresh drops c_hash; unsatisfied max_age / prompt (incl. multi-valued) / hint, empty subject, openid not requested or requested but not granted, or a past preset expiry issue nothing. Further flow: the request is pushed (PAR) and the front channel appends contradicting nonce / max_age / prompt; further session variant: the session names an issuer other than the configured default (also on refresh).",
   note="Session alg header is set to the key's algorithm (integrator duty); refreshed ID tokens may omit the nonce (OIDC Core 12.2) but must not change it."),
})

checks.update({
 "C15": dict(level="model_checking", engine="SCHED+ENUM", ref="DESIGN.md §5 C15",
   technique="stateless depth-first schedule exploration of the real token endpoint under a cooperative scheduler (all interleavings of the storage steps of 2 simultaneous presentations, preemption-bounded for 3), plus exhaustive enumeration of header x key x claim-deviation grids",
   text="Schedules: 2 and 3 simultaneous presentations of one client assertion / one JWT-bearer assertion; every interleaving at storage-call granularity for 2 threads (unbounded), preemption bound 2 (4 thorough) for 3 threads, and lock granularity with bound 2; on every complete execution at most one presentation of a jti succeeds. Grid: 6 header algorithms x 3 kid x 3 signing keys x 28 single-claim deviations (absent / wrong type / wrong value / boundary times incl. fractional exp) x scope-vs-key-scope x optional-claim configs x 3 replay positions, one-sided against the statement; overlapping presentations at API-phase granularity; client assertions of jwks_uri clients through the real fetcher and cache (look-alike URIs, 6 warm-up histories). Registered-algorithm grid: 6 registrations (incl. none = RS256 by default) x 8 header algorithms x kid sent/absent with every signing key in the client's JWKS; claim deviations include empty and prefix audiences, empty iss/sub.",
   note="Scheduling points: storage calls, random reads, lock acquisitions (vsync shim); unknown kid and future iat are don't-care."),
})

checks.update({
 "C18": dict(level="fault_enumeration", engine="FAULT", ref="DESIGN.md §5 C18",
   technique="exhaustive storage-fault and crash-point enumeration on the real provider: every storage call of every flow x error kind, every crash point, fault pairs, on a plain and a transactional (real rollback) proxy store, followed by retry and attacker replays",
   text="For 20 flows the storage-call trace of the target request is recorded; every call index x {generic, not-found, inactive, serialization conflict} (BeginTX/Commit/Rollback included), a crash before every call, and pairs (first fault anywhere, second of every kind at every later call, or a crash at every later point; triples of generic failures in thorough) are injected. A failed request carries no token/code and never panics; serialization conflicts on refresh are retryable; begin is matched by exactly one commit or rollback and never followed by a commit after a failed write; after a rolled-back failure the code/token records equal the records before the request and the holder's retry succeeds; attacker variants (foreign client, missing/wrong verifier, replay) stay refused; a revocation that reports success is effective.",
   note="Sentinel answers (not-found / inactive) at Get*/Revoke* calls are another store state, not a failure (don't-care). Record equality ignores session expiry fields. The transactional store is context-sensitive: a write issued during an open transaction with a context that does not carry it survives the rollback."),
 "C20": dict(level="exploration", engine="ENUM+FAULT", ref="DESIGN.md §5 C20",
   technique="exhaustive enumeration of error x hostile text x format x debug x writer with re-parsing of the bytes written; scan of every storage call of every flow for usable secrets; storage-error text injection at every storage call",
   text="38 errors (all exported RFC errors + a plain Go error) x hint/debug text from 16 hostile fragments (pairs in quick, triples in thorough) x legacy/new format x debug exposure x 9 writers: JSON re-parsed, redirects re-parsed (no injected parameter, state round-trips, no CR/LF in headers), form_post pages tokenised (only the expected inputs, no injected element), status matches code, debug detail only when enabled, no-store/no-cache everywhere. Storage: 17 flows (incl. every kind of credential presented in every credential slot of the token, introspection and revocation endpoints) x HMAC/JWT — no key or stored form value equals or contains a client secret, password, PKCE verifier, assertion or complete live code/token. A recognisable storage error text injected at every storage call of 20 flows never reaches the client and the answer carries an RFC error code; the same for the transport error of a failed request_uri fetch; manipulated codes / refresh tokens / device codes are refused with an OAuth 2.0 error and a 4xx status; a failing ID-token signing-key provider is answered as server_error. Cache headers: all 16 success/error writers on a response writer on which the application already set Cache-Control / Pragma / Expires (4 presets) must still leave marked no-store / no-cache.",
   note="Known findings: OpenID Connect sessions keyed by the complete authorization code (storage contract). The user password necessarily reaches Authenticate."),
})

checks.update({
 "C19": dict(level="model_checking", engine="SCHED", ref="DESIGN.md §5 C19",
   technique="stateless depth-first schedule exploration of the real provider + reference store under a cooperative scheduler with iterative preemption bounding; vector-clock happens-before race detection over shim lock edges and overlay access hooks; brute-force linearizability of store-operation triples",
   text="26 API scenarios (redeem||redeem, OIDC device poll||poll, polls after an approval recorded with a fresh session for three session types, introspect||introspect for three session types, first use of every Config getter, refresh||refresh, refresh||revoke||introspect, refresh||revoke, redeem||introspect||authorize, poll||poll, device-auth||poll, PAR-use||PAR-use, authorize||authorize and token||token on a default-constructed and a populated Config, issue||introspect, PAR-push||device-auth, issue||device-auth, mint||mint||mint) at lock granularity (preemption bound 2/1 quick, 3/2 thorough) and at storage-call granularity (all interleavings where feasible, else bound 4/6); plus every multiset of 3 store operations per table (332 triples) from a populated state. Every complete execution: no deadlock, no panic, no unordered conflicting access on instrumented fields, no lock still held after every request returned (leak), no scenario in which nothing ever succeeds (vacuity guard), no duplicate token value, no inactive token handed out without a concurrent invalidation, and for store triples results + final dump equal some sequential permutation. State-based part: no request writes into the spare capacity of a slice of the shared Config. Scenario i18n-errors: two refused requests answered in two languages through the one shared message catalog.",
   note="Races are decided for fields used inside pointer-receiver methods of ory/fosite types (a field of a stateful standard-library type such as hash.Hash counts as written on every use; map fields are additionally keyed by the map itself, also in value-receiver methods), for *url.URL variables whose RawQuery/Fragment a function assigns, and for package-level variables of slice/array/map/basic types (byte buffers count as written when handed to a call, also through a local slice of them); other memory, and the lazily created JWKS fetcher, are not observed. 2-3 goroutines."),
})

# properties not (yet) claimed: reason
not_applicable = {
}

props = [json.loads(l) for l in open(f"{V}/properties.jsonl")]
ids = [p["id"] for p in props]

man = {
 "version": 1,
 "setup_cmd": "cd /verif && ./verif setup",
 "hooks": {
  "guard": "build-time overlay generated by /verif/cmd/mkoverlay (go build -overlay); no hook code is committed to /repo",
  "enable": "./verif regenerates the overlay from /repo's current working tree on every invocation (clock -> verifhook.Now, sync -> verifhook/vsync, field-access notifications) and builds the harness with `go build -overlay`",
  "baseline_off_cmd": f"{ENV} go test -mod=mod -json -vet=off -count=1 -timeout 25m ./...",
  "source_commits": [],
  "add_only": True,
 },
 "engines": [
  {"name": "HIST", "path": "h/fam.go", "serves_properties": ["C01", "C04", "C08", "C09"], "kind_free_text": "explicit-state breadth-first search over API histories of the real provider, lock-step reference model, worker subprocesses, global dedup on canonical store dump"},
  {"name": "SCHED", "path": "h/sched.go h/schedscen.go", "serves_properties": ["C15", "C19"], "kind_free_text": "controlled cooperative scheduler over the real code (scheduling points at storage calls, random reads and shim lock acquisitions), stateless DFS with iterative preemption bounding, vector-clock happens-before race detector fed by overlay access hooks, deadlock detection"},
  {"name": "FAULT", "path": "h/c18.go", "serves_properties": ["C18", "C20"], "kind_free_text": "fault / crash-point injection at the proxy-store seam: clean trace recording, exhaustive single faults, crash points and pairs, transactional store with snapshot rollback"},
  {"name": "SEQ", "path": "h/c03.go", "serves_properties": ["C03", "C16", "C17"], "kind_free_text": "exhaustive bounded enumeration of operation sequences on the real provider"},
  {"name": "ENUM", "path": "h/c02.go h/c05.go h/c06.go h/c07.go h/c10.go h/c11.go h/c12.go h/c13.go h/c14.go h/c20.go", "serves_properties": ["C02", "C05", "C06", "C07", "C10", "C11", "C12", "C13", "C14", "C20"], "kind_free_text": "exhaustive enumeration of finite input/configuration/history-position products, each case executed on a fresh real provider and judged by an independent reference predicate"},
 ],
 "checks": [],
 "notes": "All checks rebuild the instrumented harness from /repo's working tree (./verif). Violations are re-executed 5x from their artefact before being reported; known findings live in /verif/known_findings.json.",
 "not_applicable": [],
}
for i in ids:
    if i in checks:
        c = checks[i]
        man["checks"].append({
            "property_id": i,
            "quick_cmd": f"cd /verif && ./verif check {i} --tier quick",
            "thorough_cmd": f"cd /verif && ./verif check {i} --tier thorough",
            "evidence_file": f"/verif/evidence/{i}.json",
            "replay_cmd_template": "cd /verif && ./verif replay {path}",
            "engine": c["engine"],
            "level_claimed": {"category": c["level"], "text": c["text"], "design_ref": c["ref"]},
            "level_note": c["note"],
            "technique": c["technique"],
        })
    else:
        man["not_applicable"].append({"property_id": i, "reason": not_applicable.get(i, "not claimed yet: the bounded-exhaustive check designed in DESIGN.md §5 has not been built at this commit (work in progress, no other technique substituted)")})
json.dump(man, open(f"{V}/MANIFEST.json", "w"), indent=1)
print("checks:", [c["property_id"] for c in man["checks"]], "n/a:", len(man["not_applicable"]))
