#!/bin/bash
# For every property-PRESERVING change under /verif/benign/<name>/patch.diff: shadow a scratch worktree (with
# the change applied) over /repo and run ALL 20 checks. Any VIOLATION line or non-zero exit is a false alarm
# of the machinery. /repo itself is never touched.
# usage: benign_matrix.sh [tier] [names...]      (env PROPS="C01 C02" restricts the checks)
TIER="${1:-quick}"; shift
H="${VERIF_HOME:-/verif}"   # a snapshot copy of /verif may be used so that the harness can be edited meanwhile
cd "$H"
NAMES="$@"; [ -z "$NAMES" ] && NAMES=$(ls benign | grep -v MATRIX)
PROPS="${PROPS:-C01 C02 C03 C04 C05 C06 C07 C08 C09 C10 C11 C12 C13 C14 C15 C16 C17 C18 C19 C20}"
WT=/tmp/wt/bmatrix
mkdir -p /tmp/wt/blog
for n in $NAMES; do
  git -C /repo worktree remove --force $WT >/dev/null 2>&1
  git -C /repo worktree add --detach $WT HEAD >/dev/null 2>&1
  if ! git -C $WT apply $H/benign/$n/patch.diff 2>/dev/null; then echo "$n PATCH-DOES-NOT-APPLY"; continue; fi
  row="$n"
  for p in $PROPS; do
    VERIF_EVIDENCE_DIR=/tmp/wt/bmatrix-evidence VERIF_REPO=$WT ./verif check $p --tier $TIER > /tmp/wt/blog/$n.$p.log 2>&1; rc=$?
    nv=$(grep -c '^VIOLATION' /tmp/wt/blog/$n.$p.log)
    if [ $rc -ne 0 ] || [ $nv -ne 0 ]; then row="$row $p:rc=$rc,v=$nv"; fi
  done
  [ "$row" = "$n" ] && row="$n all-quiet"
  echo "$row"
done
git -C /repo worktree remove --force $WT >/dev/null 2>&1
