#!/usr/bin/env python3
"""mkmatrix.py <seed_matrix.log> [<benign_matrix.log>]
Writes seeded/MATRIX.md (+ detected_by in every seeded/<name>/meta.json) from a log of tools/seed_matrix.sh, and
benign/MATRIX.md from a log of tools/benign_matrix.sh."""
import json, os, re, sys

V = '/verif'

def seeds(log):
    rows = []
    for l in open(log):
        m = re.match(r'^(\S+) (C\d\d) rc=(\d+) violations=(\d+)\s*(.*)$', l.strip())
        if m:
            rows.append(m.groups())
        elif 'PATCH-DOES-NOT-APPLY' in l:
            rows.append((l.split()[0], '?', 'n/a', '0', 'PATCH DOES NOT APPLY'))
    out = ['# Seeded property-breaking changes vs. the quick tier of their property\'s check', '',
           'Produced by `tools/seed_matrix.sh quick` (each seed shadowed over /repo in a scratch worktree) and `tools/mkmatrix.py`.', '',
           '| seed | property | detected | violations | first replay artefact |', '|---|---|---|---|---|']
    det = 0
    for n, p, rc, nv, first in rows:
        ok = rc == '1' and int(nv) > 0
        det += ok
        out.append('| %s | %s | %s | %s | %s |' % (n, p, 'yes' if ok else '**NO**', nv, first.replace('|', '\\|')[:80]))
        mp = '%s/seeded/%s/meta.json' % (V, n)
        if os.path.exists(mp):
            m = json.load(open(mp))
            m['detected_by'] = ['%s quick (%s violations; e.g. %s)' % (p, nv, first[:90])] if ok else []
            json.dump(m, open(mp, 'w'), indent=1)
    out += ['', '%d of %d detected.' % (det, len(rows)), '']
    open(V + '/seeded/MATRIX.md', 'w').write('\n'.join(out))
    print('seeds: %d/%d detected' % (det, len(rows)))

def benign(log):
    out = ['# Property-preserving changes vs. ALL twenty quick checks', '',
           'Produced by `tools/benign_matrix.sh quick`: a row is quiet when every one of the 20 checks exits 0 without a VIOLATION line.', '',
           '| change | result |', '|---|---|']
    q = t = 0
    for l in open(log):
        parts = l.strip().split(None, 1)
        if len(parts) < 2:
            continue
        t += 1
        q += parts[1] == 'all-quiet'
        out.append('| %s | %s |' % (parts[0], parts[1]))
    out += ['', '%d of %d quiet.' % (q, t), '']
    open(V + '/benign/MATRIX.md', 'w').write('\n'.join(out))
    print('benign: %d/%d quiet' % (q, t))

if __name__ == '__main__':
    seeds(sys.argv[1])
    if len(sys.argv) > 2:
        benign(sys.argv[2])
