#!/bin/bash
# try_seed.sh <patch.diff> <check id> [tier]  — apply a seeded change to /repo, run the check, always undo.
P="$1"; ID="$2"; TIER="${3:-quick}"
cd /repo || exit 2
if ! git diff --quiet; then echo "/repo is dirty; refusing"; exit 2; fi
trap 'git -C /repo checkout -- . ; git -C /repo clean -fdq' EXIT
git apply "$P" || { echo "patch does not apply"; exit 2; }
cd /verif && VERIF_DIR=/verif ./verif check "$ID" --tier "$TIER" > /tmp/wt/try.$$.log 2>&1; rc=$?
grep -E "^(VIOLATION|KNOWN-FINDING|HARNESS|C[0-9]+ tier)" /tmp/wt/try.$$.log | cut -c1-400 | head -${LINES_MAX:-12}
echo "exit=$rc"
rm -f /tmp/wt/try.$$.log
