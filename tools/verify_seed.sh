#!/bin/bash
# verify_seed.sh <seed dir (with patch.diff, demo_test.go)> <name> [pkgdir]
# Confirms in a scratch worktree of /repo HEAD: patch applies, builds, full suite passes, demo fails with / passes without.
set -u
SRC="$1"; NAME="$2"; PKG="${3:-}"
export GOFLAGS=-mod=mod GOPROXY=off GOSUMDB=off GOTOOLCHAIN=local
WT=/tmp/wt/v-$NAME
git -C /repo worktree remove --force "$WT" >/dev/null 2>&1
git -C /repo worktree add --detach "$WT" HEAD >/dev/null 2>&1 || { echo "RESULT $NAME worktree-failed"; exit 2; }
cleanup() { git -C /repo worktree remove --force "$WT" >/dev/null 2>&1; }
trap cleanup EXIT
cd "$WT"
if [ -z "$PKG" ]; then
  PKG=$(head -12 "$SRC/demo_test.go" | grep -oE '(integration|handler/[a-z0-9]+|storage|token/[a-z]+|compose)/?' | head -1); PKG=${PKG%/}
  [ -z "$PKG" ] && PKG=$(grep -m1 '^package ' "$SRC/demo_test.go" | awk '{print $2}' | sed 's/_test$//;s/^fosite$/./')
fi
git apply --check "$SRC/patch.diff" 2>/dev/null || { echo "RESULT $NAME patch-does-not-apply"; exit 1; }
TESTS=$(grep -oE '^func (Test[A-Za-z0-9_]+)' "$SRC/demo_test.go" | awk '{print $2}' | paste -sd'|')
cp "$SRC/demo_test.go" "$PKG/zz_demo_${NAME}_test.go"
# without patch: demo must pass
go test -vet=off -count=1 -run "^($TESTS)\$" "./$PKG" >/tmp/wt/v-$NAME.clean.log 2>&1; CLEAN=$?
git apply "$SRC/patch.diff"
go build ./... >/tmp/wt/v-$NAME.build.log 2>&1 || { echo "RESULT $NAME build-fails"; exit 1; }
go test -vet=off -count=1 -run "^($TESTS)\$" "./$PKG" >/tmp/wt/v-$NAME.patched.log 2>&1; PATCHED=$?
rm "$PKG/zz_demo_${NAME}_test.go"
go test -vet=off -count=1 ./... >/tmp/wt/v-$NAME.suite.log 2>&1; SUITE=$?
echo "RESULT $NAME pkg=$PKG tests=$TESTS demo_clean_exit=$CLEAN demo_patched_exit=$PATCHED suite_exit=$SUITE"
if [ $CLEAN -eq 0 ] && [ $PATCHED -ne 0 ] && [ $SUITE -eq 0 ]; then echo "VERIFIED $NAME"; else echo "REJECTED $NAME"; fi
