#!/bin/bash
# run every registered quick (or thorough) check on /repo as it is; print one line per check
TIER="${1:-quick}"
cd "$(dirname "${BASH_SOURCE[0]}")/.." && V=$(pwd)
for id in $(python3 -c "import json;print(' '.join(c['property_id'] for c in json.load(open('MANIFEST.json'))['checks']))"); do
  s=$(date +%s)
  ./verif check $id --tier $TIER > $V/.work/run_$id.log 2>&1; rc=$?
  e=$(date +%s)
  echo "$id rc=$rc $((e-s))s $(grep -c '^VIOLATION' $V/.work/run_$id.log) violations $(grep -c '^KNOWN-FINDING' $V/.work/run_$id.log) known $(grep -c HARNESS $V/.work/run_$id.log) harness-errors"
done
